"""C05 — Helmholtz-family operators are consistent with Laplace and with each other.

(a) |k| D <= 1: entrywise  |V_k - V_0 - ik/(4 pi) m m'| <= |k|^2 D/(4 pi) mhat mhat'  and
    |K_k - K_0|, |K'_k - K'_0| <= |k|^2/(4 pi) mhat mhat'   (mhat >= m: the library's regular nodes with absolute weights and
    absolute basis values; the analytic constants are e-2 and 1, so the bound is never tighter than the property states);
(b) wavenumber i*w coincides with modified Helmholtz for w (boundary and potential), also in the limit of a vanishing real part;
(c) A(-conj k) = conj A(k) to rounding;
(d) V and W complex-symmetric, K' = K^T with the spaces exchanged, up to singular-quadrature error (convergence in s).
"""

import numpy as np

from vlib import boot
from vlib.verdict import Ctx

KA = {"DP0": ("DP", 0), "DP1": ("DP", 1), "P1": ("P", 1)}


def basis_integrals(space, pts, w):
    """m (exact integrals of the basis functions) and mhat (sum |w| ie |phi| at the library's nodes)."""
    from vlib import refmodel as R

    grid = space.grid
    V = np.asarray(grid.vertices)
    E = np.asarray(grid.elements).astype(int)
    l2g = np.asarray(space.local2global).astype(int)
    mult = np.asarray(space.local_multipliers)
    n = space.global_dof_count
    m = np.zeros(n)
    mh = np.zeros(n)
    p1 = space.shapeset.identifier == "p1_discontinuous"
    xp, wp = R.triangle_rule(3)
    phi_ex = R.shape_p1(xp)[0] if p1 else R.shape_p0(xp)[0]
    phi_lib = R.shape_p1(pts)[0] if p1 else R.shape_p0(pts)[0]
    for e in np.flatnonzero(np.asarray(space.support)):
        ie = 2 * R.affine_map(V[:, E[:, e]])[2]
        for l in range(l2g.shape[1]):
            m[l2g[e, l]] += mult[e, l] * ie * float(wp @ phi_ex[l])
            mh[l2g[e, l]] += abs(mult[e, l]) * ie * float(np.abs(w) @ np.abs(phi_lib[l]))
    return m, mh


def main():
    ctx = Ctx("C05")
    ctx.rule = ("(mesh closed/open) x (scalar space pair, incl. segments) x wavenumbers near 0 (real, imaginary, complex, |k|D from 1e-6 to 1), w > 0, "
                "quadrature orders: entrywise small-k bounds against Laplace, Helmholtz(iw) vs modified Helmholtz(w), conjugation symmetry, complex symmetry / "
                "transposition by convergence in the singular order. Distinct = (mesh, spaces, k or w, orders, relation).")
    ctx.assumptions = ["bound constants: (e-2) <= 1 for the single layer, 1 for the double layers (derived in the module docstring); 1e-13 absolute rounding slack",
                       "mhat uses the library's regular nodes with |w| and |phi| (>= m also for rules with negative weights or outside nodes)"]
    boot.boot()
    import bempp_cl.api as api
    from bempp_cl.api.integration.triangle_gauss import rule as tri_rule
    from vlib import meshes as M, monitors as mon, ops as O, spaces as S

    rec = mon.LAUNCH.install()
    if not ctx.worker:
        ctx.spawn_san("checks.C05")
    rng0 = ctx.rng("pool")
    mild = dict(jitter=0.05, strength=0.2, min_angle=20.0)
    pool = [("octa_r1", M.assign_domains(M.distort(M.refine(M.octahedron(), 1), rng0, **mild), rng0, 3, values=[5, 2, 9])),
            ("screen3", M.assign_domains(M.distort(M.screen(3), rng0, **mild), rng0, 2, values=[1, 4]))]
    if not ctx.quick:
        pool += [("cube6", M.distort(M.cube(face_domains=True), rng0, **mild)), ("torus", M.assign_domains(M.distort(M.torus(6, 4), rng0, **mild), rng0, 3, values=[3, 0, 8])),
                 ("lprism_small", M.scale(M.distort(M.l_prism(), rng0, **mild), 0.05)), ("tetra_big", M.scale(M.distort(M.refine(M.tetrahedron(), 1), rng0, **mild), 40.0))]
    if ctx.worker == "san":
        pool = pool[:1]
    pairs = [("DP0", "DP0"), ("P1", "P1"), ("DP0", "P1")] if ctx.quick or ctx.worker else [("DP0", "DP0"), ("P1", "P1"), ("DP0", "P1"), ("P1", "DP0"), ("DP1", "P1"), ("DP1", "DP1")]
    worst = {"bound_ratio_V": 0.0, "bound_ratio_K": 0.0, "imag_vs_modified": 0.0, "conj": 0.0}
    for mname, mesh in pool:
        grid = M.to_grid(mesh)
        topo = S.Topo(mesh.V, mesh.E)
        Dm = float(max(np.linalg.norm(mesh.V[:, [i]] - mesh.V, axis=0).max() for i in range(mesh.nv)))
        rng = ctx.rng(mname)
        for pi, (tk, sk) in enumerate(pairs):
            for vi in range(2 if ctx.quick or ctx.worker else 4):
                # one stream per (mesh, pair, variant): the sanitizer worker runs a sub-set of the parent's cases and must draw the
                # same options and wavenumbers for the same case id
                rng = ctx.rng(mname, tk, sk, vi)
                r, s = (4, 4) if vi % 2 == 0 else (int(rng.integers(2, 8)), int(rng.integers(3, 7)))
                par = O.params(api, r, s)
                optsT = (S.draw_opts(rng, mesh, topo, *KA[tk], variant=vi)[0] or {}) if vi else {}
                optsS = (S.draw_opts(rng, mesh, topo, *KA[sk], variant=vi + 2)[0] or {}) if vi else {}
                for o in (optsT, optsS):
                    o.pop("swapped_normals", None)
                    if mesh.is_closed_manifold() is False and vi == 0 and "include_boundary_dofs" not in o:
                        o["include_boundary_dofs"] = True
                tag = "%s:%s,%s:v%d" % (mname, tk, sk, vi)
                with ctx.guard(tag, "helmholtz_consistency", allow=S.ALLOWED_REJECTIONS):
                    trial = S.make_space(api, grid, *KA[tk], **optsT)
                    test = S.make_space(api, grid, *KA[sk], **optsS)
                    pts, w = tri_rule(r)
                    mt, mht = basis_integrals(trial, np.asarray(pts), np.asarray(w))
                    ms, mhs = basis_integrals(test, np.asarray(pts), np.asarray(w))
                    ops = ["single_layer", "double_layer", "adjoint_double_layer"]
                    L0 = {op: O.dense(O.boundary(api, "laplace", op, trial, test, test, parameters=par)) for op in ops}
                    kmags = [1e-6, 1e-2, 0.3, 1.0] if not ctx.quick else [1e-3, 0.5, 1.0]
                    for ki, km in enumerate(kmags):
                        ph = [0.0, np.pi / 2, rng.uniform(0.05, 1.5) * (1 if (ki + pi) % 2 else -1), np.pi - 0.3, -(np.pi - 0.3)][(ki + vi + pi) % 5]
                        k = km / Dm * np.exp(1j * ph)
                        if abs(k.imag) < 1e-300:
                            k = float(k.real)
                        for op in ops:
                            cid = "%s:small_k:%s:|k|D=%g:arg=%.2f" % (tag, op, km, ph)
                            if not ctx.want(cid):
                                continue
                            Ak = O.dense(O.boundary(api, "helmholtz", op, trial, test, test, k, parameters=par))
                            if op == "single_layer":
                                diff = np.abs(Ak - L0[op] - 1j * k / (4 * np.pi) * np.outer(ms, mt))
                                bound = abs(k) ** 2 * Dm / (4 * np.pi) * np.outer(mhs, mht)
                                key = "bound_ratio_V"
                            else:
                                diff = np.abs(Ak - L0[op])
                                bound = abs(k) ** 2 / (4 * np.pi) * np.outer(mhs, mht)
                                key = "bound_ratio_K"
                            slack = 1e-13 * max(1.0, np.abs(L0[op]).max())
                            ratio = float((diff / (bound + slack)).max())
                            worst[key] = max(worst[key], ratio)
                            ctx.diff("Ak:%s" % cid, Ak, scale=float(np.abs(Ak).max()))
                            ctx.case(cid, {"mesh": mname, "spaces": [tk, sk], "opts": [S.opts_key(optsT), S.opts_key(optsS)], "op": op, "k": complex(k), "orders": [r, s],
                                           "max_diff_over_bound": ratio})
                            if not np.all(np.isfinite(Ak)) or ratio > 1.0:
                                i, j = np.unravel_index(np.argmax(diff / (bound + slack)), diff.shape)
                                kcls = "real_k" if np.imag(k) == 0 else ("imaginary_k" if abs(np.real(k)) < 1e-14 * abs(k) else "complex_k")
                                ctx.violation("small_k_bound:%s:%s" % (op, kcls), "%s: entry (%d,%d): |difference| = %.3e exceeds the bound %.3e (ratio %.3f)"
                                              % (cid, i, j, diff[i, j], bound[i, j], ratio), cid)
                    # ---- (b) imaginary wavenumber vs modified Helmholtz, (c) conjugation
                    for wi, wv in enumerate([0.7 / Dm, 12.0 / Dm] if ctx.quick or ctx.worker else [1e-3 / Dm, 0.7 / Dm, 5.0 / Dm, 30.0 / Dm]):
                        for op in ops + (["hypersingular"] if (tk, sk) == ("P1", "P1") else []):
                            cid = "%s:imag_k:%s:wD=%g" % (tag, op, wv * Dm)
                            if not ctx.want(cid):
                                continue
                            Am = O.dense(O.boundary(api, "modified_helmholtz", op, trial, test, test, wv, parameters=par))
                            Ah = O.dense(O.boundary(api, "helmholtz", op, trial, test, test, 1j * wv, parameters=par))
                            dev = O.rel(Ah, Am)
                            worst["imag_vs_modified"] = max(worst["imag_vs_modified"], dev)
                            eps = 1e-7 / Dm
                            Ae = O.dense(O.boundary(api, "helmholtz", op, trial, test, test, eps + 1j * wv, parameters=par))
                            lim = O.frob(Ae - Am) / max(O.frob(Am), 1e-300)
                            ctx.case(cid, {"mesh": mname, "spaces": [tk, sk], "op": op, "w": wv, "rel_dev": dev, "limit_dev": lim, "eps": eps})
                            if dev > 1e-12:
                                ctx.violation("imaginary_k_vs_modified:boundary:%s" % op, "%s: ||H(iw) - MH(w)|| / ||.|| = %.3e" % (cid, dev), cid)
                            if lim > 10 * eps * Dm * (1 + wv * Dm) + 1e-12:
                                ctx.violation("vanishing_real_part_limit:boundary:%s" % op, "%s: ||H(eps+iw) - MH(w)|| / ||MH|| = %.3e for eps*D = %.1e" % (cid, lim, eps * Dm), cid)
                    for ki, k in enumerate([1.3 / Dm, (0.8 + 0.6j) / Dm] if ctx.quick or ctx.worker else [1.3 / Dm, (0.8 + 0.6j) / Dm, (3.0 + 0.01j) / Dm, 0.9j / Dm]):
                        for op in ops + (["hypersingular"] if (tk, sk) == ("P1", "P1") else []):
                            cid = "%s:conj:%s:kD=%s" % (tag, op, complex(k * Dm))
                            if not ctx.want(cid):
                                continue
                            A1 = O.dense(O.boundary(api, "helmholtz", op, trial, test, test, k, parameters=par))
                            A2 = O.dense(O.boundary(api, "helmholtz", op, trial, test, test, -np.conj(k), parameters=par))
                            dev = O.rel(A2, np.conj(A1))
                            worst["conj"] = max(worst["conj"], dev)
                            ctx.case(cid, {"mesh": mname, "spaces": [tk, sk], "op": op, "k": complex(k), "rel_dev": dev})
                            if dev > 1e-12:
                                ctx.violation("conjugation:%s" % op, "%s: ||A(-conj k) - conj A(k)|| / ||A|| = %.3e" % (cid, dev), cid)
                for mm_, msg in rec.drain():
                    ctx.violation(mm_, "%s: %s" % (tag, msg), tag)
    ctx.lap("bounds_imag_conj")

    # ------------------------------------------------------------------ potentials with imaginary wavenumber
    mname, mesh = pool[0]
    grid = M.to_grid(mesh)
    pts3 = ctx.rng("pts").normal(size=(3, 17)) * 2.0 * mesh.diameter()
    for fam_op, kind in (("single_layer", "DP0"), ("double_layer", "P1")):
        for wv in ([0.9] if ctx.quick or ctx.worker else [0.9, 1e-2, 7.0]):
          # "all quadrature orders": the default object and explicit parameter objects of other orders
          for rorder in (None, 2, 7):
            cid = "potential:imag_k:%s:w=%g" % (fam_op, wv) + ("" if rorder is None else ":r=%d" % rorder)
            if not ctx.want(cid):
                continue
            with ctx.guard(cid, "imaginary_k_vs_modified:potential:%s" % fam_op):
                sp = api.function_space(grid, *KA[kind])
                gf = api.GridFunction(sp, coefficients=ctx.rng(cid).normal(size=sp.global_dof_count))
                par = None if rorder is None else O.params(api, rorder, 4)
                vm = np.asarray(O.potential(api, "modified_helmholtz", fam_op, sp, pts3, wv, parameters=par).evaluate(gf))
                vh = np.asarray(O.potential(api, "helmholtz", fam_op, sp, pts3, 1j * wv, parameters=par).evaluate(gf))
                dev = O.rel(vh, vm)
                eps = 1e-7
                ve = np.asarray(O.potential(api, "helmholtz", fam_op, sp, pts3, eps + 1j * wv, parameters=par).evaluate(gf))
                lim = O.frob(ve - vm) / max(O.frob(vm), 1e-300)
                ctx.case(cid, {"potential": fam_op, "w": wv, "regular_order": rorder, "rel_dev": dev, "limit_dev": lim})
                if dev > 1e-12:
                    ctx.violation("imaginary_k_vs_modified:potential:%s:value" % fam_op, "%s: %.3e" % (cid, dev), cid)
                if lim > 100 * eps * mesh.diameter() * 5 + 1e-12:
                    ctx.violation("vanishing_real_part_limit:potential:%s" % fam_op, "%s: %.3e" % (cid, lim), cid)
    ctx.lap("potentials")

    # ------------------------------------------------------------------ (d) complex symmetry / transposition, convergence in s
    if not ctx.worker:
        for mname, mesh in pool[: (2 if ctx.quick else 4)]:
            grid = M.to_grid(mesh)
            inc = {} if mesh.is_closed_manifold() else {"include_boundary_dofs": True}
            p1 = api.function_space(grid, "P", 1, **inc)
            dp0 = api.function_space(grid, "DP", 0)
            # the same relations with spaces EXCHANGED whose normal orientations differ (swapped normals on one space only)
            swd = [int(sorted(set(mesh.D.tolist()))[-1])]
            p1w = api.function_space(grid, "P", 1, swapped_normals=swd, **inc)
            Dm = mesh.diameter()
            for k in ([(1.1 + 0.4j) / Dm] if ctx.quick else [(1.1 + 0.4j) / Dm, 2.5 / Dm, 0.8j / Dm]):
                orders = [4, 8, 10]
                rels = {"V_symmetric[P1]": [], "V_symmetric[DP0]": [], "W_symmetric[P1]": [], "K'=K^T[P1,DP0]": [], "W_exchanged[P1,P1swapped]": [], "K'=K^T[P1swapped,DP0]": []}
                cid = "symmetry:%s:kD=%s" % (mname, complex(k * Dm))
                if not ctx.want(cid):
                    continue
                with ctx.guard(cid, "complex_symmetry"):
                    for so in orders:
                        par = O.params(api, 5, so)
                        V1 = O.dense(O.boundary(api, "helmholtz", "single_layer", p1, p1, p1, k, parameters=par))
                        V0 = O.dense(O.boundary(api, "helmholtz", "single_layer", dp0, dp0, dp0, k, parameters=par))
                        W = O.dense(O.boundary(api, "helmholtz", "hypersingular", p1, p1, p1, k, parameters=par))
                        K = O.dense(O.boundary(api, "helmholtz", "double_layer", p1, dp0, dp0, k, parameters=par))      # trial P1, test DP0
                        Kp = O.dense(O.boundary(api, "helmholtz", "adjoint_double_layer", dp0, p1, p1, k, parameters=par))  # trial DP0, test P1
                        rels["V_symmetric[P1]"].append(O.frob(V1 - V1.T) / O.frob(V1))
                        rels["V_symmetric[DP0]"].append(O.frob(V0 - V0.T) / O.frob(V0))
                        rels["W_symmetric[P1]"].append(O.frob(W - W.T) / O.frob(W))
                        rels["K'=K^T[P1,DP0]"].append(O.frob(Kp - K.T) / O.frob(K))
                        Wab = O.dense(O.boundary(api, "helmholtz", "hypersingular", p1, p1w, p1w, k, parameters=par))
                        Wba = O.dense(O.boundary(api, "helmholtz", "hypersingular", p1w, p1, p1, k, parameters=par))
                        Kw = O.dense(O.boundary(api, "helmholtz", "double_layer", p1w, dp0, dp0, k, parameters=par))
                        Kpw = O.dense(O.boundary(api, "helmholtz", "adjoint_double_layer", dp0, p1w, p1w, k, parameters=par))
                        rels["W_exchanged[P1,P1swapped]"].append(O.frob(Wab - Wba.T) / O.frob(Wab))
                        rels["K'=K^T[P1swapped,DP0]"].append(O.frob(Kpw - Kw.T) / O.frob(Kw))
                    ctx.case(cid, {"mesh": mname, "k": complex(k), "singular_orders": orders, "asymmetry": rels})
                    for nm, a in rels.items():
                        top = a[-1]
                        if not np.isfinite(top) or top > 1e-5 or (top > a[0] / 30 and top > 1e-10):
                            ctx.violation("complex_symmetry:" + nm.split("[")[0], "%s: %s by singular order %s: %s" % (cid, nm, orders, ["%.2e" % x for x in a]), cid)
                for mm_, msg in rec.drain():
                    ctx.violation(mm_, "%s: %s" % (cid, msg), cid)
        # ---- the same relations between two DIFFERENT grids (no singular part there: they hold to rounding), and the
        # vanishing-real-part limit for such a coupling block
        mA_, mB_ = pool[0][1], pool[1][1].copy("second_body")
        mB_.V = mB_.V * 0.8 + np.array([[3.1 * mA_.diameter()], [0.3], [-0.4]])
        gA_, gB_ = M.to_grid(mA_), M.to_grid(mB_)
        incA = {} if mA_.is_closed_manifold() else {"include_boundary_dofs": True}
        incB = {} if mB_.is_closed_manifold() else {"include_boundary_dofs": True}
        pA, pB = api.function_space(gA_, "P", 1, **incA), api.function_space(gB_, "P", 1, **incB)
        dA, dB = api.function_space(gA_, "DP", 0), api.function_space(gB_, "DP", 0)
        Dm_ = mA_.diameter()
        par = O.params(api, 5, 4)
        for k in ([(1.1 - 0.4j) / Dm_] if ctx.quick else [(1.1 - 0.4j) / Dm_, 2.5 / Dm_, (0.3 + 0.9j) / Dm_]):
            cid = "two_grids:%s|%s:kD=%s" % (pool[0][0], pool[1][0], complex(k * Dm_))
            if not ctx.want(cid):
                continue
            with ctx.guard(cid, "two_grids"):
                rel2 = {}
                Wab = O.dense(O.boundary(api, "helmholtz", "hypersingular", pB, pA, pA, k, parameters=par))
                Wba = O.dense(O.boundary(api, "helmholtz", "hypersingular", pA, pB, pB, k, parameters=par))
                rel2["W_exchanged"] = O.frob(Wab - Wba.T) / O.frob(Wab)
                Vab = O.dense(O.boundary(api, "helmholtz", "single_layer", dB, dA, dA, k, parameters=par))
                Vba = O.dense(O.boundary(api, "helmholtz", "single_layer", dA, dB, dB, k, parameters=par))
                rel2["V_exchanged"] = O.frob(Vab - Vba.T) / O.frob(Vab)
                Kab = O.dense(O.boundary(api, "helmholtz", "double_layer", pB, dA, dA, k, parameters=par))
                Kpba = O.dense(O.boundary(api, "helmholtz", "adjoint_double_layer", dA, pB, pB, k, parameters=par))
                rel2["K'=K^T"] = O.frob(Kpba - Kab.T) / O.frob(Kab)
                w_ = float(abs(np.imag(k))) if np.imag(k) != 0 else float(abs(k))
                Wm = O.dense(O.boundary(api, "modified_helmholtz", "hypersingular", pB, pA, pA, w_, parameters=par))
                We = O.dense(O.boundary(api, "helmholtz", "hypersingular", pB, pA, pA, 1e-7 + 1j * w_, parameters=par))
                rel2["W_limit_to_modified"] = O.frob(We - Wm) / O.frob(Wm)
                ctx.case(cid, {"grids": [pool[0][0], pool[1][0]], "k": complex(k), "relations": rel2})
                for nm, v in rel2.items():
                    lim_ = 1e-4 if nm == "W_limit_to_modified" else 1e-11
                    if not np.isfinite(v) or v > lim_:
                        ctx.violation("two_grids:" + nm, "%s: %s = %.3e" % (cid, nm, v), cid)
            for mm_, msg in rec.drain():
                ctx.violation(mm_, "%s: %s" % (cid, msg), cid)
        ctx.lap("symmetry")
    ctx.note("worst", worst)
    ctx.note("launch_recorder", rec.summary())
    ctx.finish()


if __name__ == "__main__":
    main()
