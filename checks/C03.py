"""C03 — boundary operators are equivariant under motion, scaling and relabelling.

For a grid m and its image m' = g(m) under a group element g (rigid motion, scaling with k -> k/s, vertex / element
renumbering, cyclic local rotation, physically reversed orientation in place of a swapped-normals flag) the assembled
matrices must satisfy  A(m) = factor * P_test' A(m') P_trial,  where the signed permutations P are *measured*: both
spaces' basis functions are evaluated at the same physical sample points and P = argmin |F' P - F| must come out as a
signed permutation (which is itself the equivariance of the spaces).
 * rigid motion, scaling: to rounding (same local coordinates, same quadrature points);
 * relabelling / rotation / flip: the regular part (full minus singular part) to rounding - the symmetric triangle
   rules are invariant under vertex permutations - and the full matrix up to singular-quadrature error, decided by
   convergence in the singular order;
 * a class-complete family of two-element grids drives every one of the 18 edge and 9 vertex Duffy remap classes.
"""

import itertools

import numpy as np

from vlib import boot
from vlib.verdict import Ctx

HOMOGENEITY = {"single_layer": 3, "double_layer": 2, "adjoint_double_layer": 2, "hypersingular": 1, "identity": 2, "laplace_beltrami": 0,
               "electric_field": 2, "magnetic_field": 2}
KA = {"DP0": ("DP", 0), "DP1": ("DP", 1), "P1": ("P", 1), "RWG": ("RWG", 0), "SNC": ("SNC", 0),
      "P1i": ("P", 1)}   # P1 with default options (no boundary dofs): on open grids its dof set depends on the boundary flags of the grid
LOCAL = np.array([[0.2, 0.6, 0.15], [0.3, 0.1, 0.7]])
SING_ORDERS = (4, 8, 10)


def sample_points(mesh):
    """Physical sample points: 3 interior points per element. Returns (3, 3*ne)."""
    pts = []
    for e in range(mesh.ne):
        P = mesh.V[:, mesh.E[:, e]]
        pts.append(P[:, [0]] + np.column_stack([P[:, 1] - P[:, 0], P[:, 2] - P[:, 0]]) @ LOCAL)
    return np.hstack(pts)


def locate(mesh, X):
    """For each physical point: (element, local coordinates) in `mesh` (brute force)."""
    out = []
    P0 = mesh.V[:, mesh.E[0]].T
    A = mesh.V[:, mesh.E[1]].T - P0
    B = mesh.V[:, mesh.E[2]].T - P0
    N = np.cross(A, B)
    Nn = N / np.linalg.norm(N, axis=1)[:, None]
    sc = np.sqrt(np.linalg.norm(N, axis=1))
    aa, ab, bb = np.sum(A * A, 1), np.sum(A * B, 1), np.sum(B * B, 1)
    det = aa * bb - ab * ab
    for x in X.T:
        d = x - P0
        da, db = np.sum(d * A, 1), np.sum(d * B, 1)
        u = (bb * da - ab * db) / det
        v = (aa * db - ab * da) / det
        h = np.abs(np.sum(d * Nn, 1)) / sc
        ok = np.flatnonzero((u > 1e-6) & (v > 1e-6) & (u + v < 1 - 1e-6) & (h < 1e-7))
        if len(ok) != 1:
            raise RuntimeError("sample point lies in %d elements" % len(ok))
        out.append((int(ok[0]), np.array([[u[ok[0]]], [v[ok[0]]]])))
    return out


def basis_matrix(space, where, rot=None):
    """F (codim*npts, ndof): values of every global basis function at the located points
    (vector values are mapped by `rot`, the rotation of a rigid motion: phi'(Rx+t) = R phi(x))."""
    n = space.global_dof_count
    cod = space.codomain_dimension
    F = np.zeros((cod * len(where), n))
    l2g = np.asarray(space.local2global).astype(int)
    T = space.dof_transformation
    dense_T = T.toarray() if space.requires_dof_transformation else None
    for i, (e, xi) in enumerate(where):
        vals = space.evaluate(e, xi)  # (cod, nshape, 1)
        if rot is not None and cod == 3:
            vals = np.einsum("ij,jlk->ilk", rot, vals)
        for l in range(vals.shape[1]):
            col = l2g[e, l]
            if dense_T is None:
                F[cod * i:cod * (i + 1), col] += vals[:, l, 0]
            else:
                F[cod * i:cod * (i + 1), :] += np.outer(vals[:, l, 0], dense_T[col])
    return F


def signed_permutation(FA, FB):
    """P with FB @ P = FA; returns (P, defect) where defect measures the distance from a signed permutation."""
    P, *_ = np.linalg.lstsq(FB, FA, rcond=None)
    R = np.round(P)
    defect = float(np.abs(P - R).max()) if P.size else 0.0
    ok = np.all(np.abs(R).sum(axis=0) == 1) and np.all(np.abs(R).sum(axis=1) == 1) and np.all(np.isin(R, (-1, 0, 1)))
    resid = float(np.abs(FB @ R - FA).max() / max(1e-300, np.abs(FA).max())) if P.size else 0.0
    return R, max(defect, resid), bool(ok)


def main():
    ctx = Ctx("C03")
    ctx.rule = ("(mesh) x (group element: rigid, far translation, scaling 1e-3/1e3, vertex+element renumbering, local rotation, physical flip vs swapped_normals) x "
                "(operator family, space pair, wavenumber); plus all 18 edge / 9 vertex adjacency classes on two-element grids. Distinct = (mesh, action, operator config).")
    ctx.assumptions = ["the signed permutations are measured from space.evaluate on both grids (and must be signed permutations to 1e-10)",
                       "rounding tolerance 1e-10 (scaled by 10*|t|/D for far translations); singular-order convergence: top <= bottom/30 or < 1e-10, and top < 1e-5"]
    boot.boot()
    import bempp_cl.api as api
    from vlib import meshes as M, monitors as mon, ops as O

    rec = mon.LAUNCH.install()
    global SING_ORDERS
    SING_ORDERS = (4, 9) if ctx.quick else (4, 8, 10)
    rng0 = ctx.rng("pool")
    mild = dict(jitter=0.05, strength=0.2, min_angle=20.0)
    pool = [("octa_r1", M.assign_domains(M.distort(M.refine(M.octahedron(), 1), rng0, **mild), rng0, 3, values=[5, 2, 9])),
            ("screen3", M.assign_domains(M.distort(M.screen(3), rng0, **mild), rng0, 2, values=[1, 4])),
            ]
    if not ctx.quick:
        pool += [("cube6", M.distort(M.cube(face_domains=True), rng0, **mild)), ("torus", M.assign_domains(M.distort(M.torus(6, 4), rng0, **mild), rng0, 3, values=[3, 0, 8])),
                 ("lprism", M.assign_domains(M.distort(M.l_prism(), rng0, **mild), rng0, 2, values=[0, 6]))]
    # (family, op, trial kind, test kind, k)
    cfgs = [("laplace", "single_layer", "DP0", "P1", None), ("laplace", "double_layer", "P1", "DP1", None), ("laplace", "hypersingular", "P1", "P1", None),
            ("helmholtz", "single_layer", "P1", "P1", 1.1 + 0.3j), ("maxwell", "electric_field", "RWG", "SNC", 0.9), ("sparse", "identity", "P1", "DP0", None)]
    if not ctx.quick:
        cfgs += [("laplace", "adjoint_double_layer", "DP1", "P1", None), ("helmholtz", "double_layer", "DP0", "P1", 0.8), ("helmholtz", "adjoint_double_layer", "P1", "DP0", 0.5 - 1.2j),
                 ("helmholtz", "hypersingular", "P1", "P1", 1.4), ("modified_helmholtz", "single_layer", "DP0", "DP0", 0.7), ("modified_helmholtz", "double_layer", "P1", "P1", 1.3),
                 ("modified_helmholtz", "adjoint_double_layer", "P1", "P1", 0.6), ("modified_helmholtz", "hypersingular", "P1", "P1", 0.9),
                 ("maxwell", "magnetic_field", "RWG", "SNC", 1.1 + 0.2j), ("sparse", "laplace_beltrami", "P1", "P1", None), ("sparse", "identity", "RWG", "SNC", None)]

    def spaces(grid, tk, sk, swapped=None, open_grid=False):
        """`swapped`: None, a list (both spaces) or a pair (trial list or None, test list or None)."""
        sw_t, sw_s = swapped if isinstance(swapped, tuple) else (swapped, swapped)
        inc = dict(include_boundary_dofs=True) if open_grid else {}
        mk = lambda kind, sw: api.function_space(grid, *KA[kind], **(dict(swapped_normals=sw) if sw else {}), **(inc if kind in ("P1", "RWG", "SNC") else {}))  # noqa: E731
        return mk(tk, sw_t), mk(sk, sw_s)

    def assemble(fam, op, trial, test, k, r, s, part="full"):
        par = O.params(api, r, s)
        A = O.dense(O.boundary(api, fam, op, trial, test if fam != "maxwell" else trial, test, k, parameters=par))
        if part == "regular" and fam != "sparse":
            S_ = O.dense(O.boundary(api, fam, op, trial, test if fam != "maxwell" else trial, test, k, parameters=par, assembler="only_singular_part"))
            return A - S_
        return A

    adj_seen = {"edge": set(), "vertex": set()}
    worst = {}

    def compare(cid, mech, A, B, Pt, Ps, factor, tol):
        ref = factor * (Ps.T @ B @ Pt)
        dev = O.rel(A, ref)
        worst[mech.split(":")[1]] = max(worst.get(mech.split(":")[1], 0.0), dev)
        if not np.all(np.isfinite(B)) or dev > tol:
            ctx.violation(mech, "%s: ||A - f P'A'P|| / ||A|| = %.3e (tolerance %.1e)" % (cid, dev, tol), cid)
        return dev

    for mname, mesh in pool:
        open_grid = not mesh.is_closed_manifold()
        D = mesh.diameter()
        rng = ctx.rng(mname)
        doms = sorted(set(mesh.D.tolist()))
        actions = []
        R = M.random_rotation(rng)
        actions.append(("rigid", M.rigid(mesh, R, rng.normal(size=3) * D), 1.0, None, "round"))
        tfar = rng.normal(size=3)
        tfar = tfar / np.linalg.norm(tfar) * 1e3 * D
        actions.append(("far_translation", M.rigid(mesh, M.random_rotation(rng), tfar), 1.0, None, "round_far"))
        for s_ in ((1e-3,) if ctx.quick else (1e-3, 1e3, 7.3)):
            actions.append(("scale%g" % s_, M.scale(mesh, s_), s_, None, "round"))
        mm = M.permute_elements(M.permute_vertices(mesh, rng.permutation(mesh.nv)), rng.permutation(mesh.ne))
        actions.append(("renumber", mm, 1.0, None, "relabel"))
        actions.append(("rotate_local", M.rotate_local(mesh, rng.integers(0, 3, size=mesh.ne)), 1.0, None, "relabel"))
        flipdom = [doms[0]]
        mflip = M.flip_orientation(mesh, np.isin(mesh.D, flipdom))
        actions.append(("flip_vs_swapped", mflip, 1.0, (flipdom, None), "relabel"))
        # the flag on ONE space only: (trial swapped, test plain) on the grid == (trial plain, test swapped) on the flipped grid
        actions.append(("flip_vs_swapped_trial_only", mflip, 1.0, ((flipdom, None), (None, flipdom)), "relabel"))
        actions.append(("flip_vs_swapped_test_only", mflip, 1.0, ((None, flipdom), (flipdom, None)), "relabel"))
        # where only ONE side's normal enters the operator (double layer: trial normal, adjoint: test normal; scalar spaces) the
        # flag on that side alone is equivalent to the physically reversed grid without any flag
        actions.append(("flip_vs_trial_flag_only_plain", mflip, 1.0, ((flipdom, None), (None, None)), "relabel"))
        actions.append(("flip_vs_test_flag_only_plain", mflip, 1.0, ((None, flipdom), (None, None)), "relabel"))
        grid = M.to_grid(mesh)
        ea, va = np.asarray(grid.edge_adjacency), np.asarray(grid.vertex_adjacency)
        adj_seen["edge"] |= {tuple(c) for c in ea[2:].T.tolist()}
        adj_seen["vertex"] |= {tuple(c) for c in va[2:].T.tolist()}
        X = sample_points(mesh)
        where0 = locate(mesh, X)
        for aname, m2, s_, swapped0, mode in actions:
            grid2 = M.to_grid(m2)
            if aname in ("rigid", "far_translation"):
                # recover the motion from the vertices (they keep their numbering)
                c0, c2 = mesh.V.mean(axis=1, keepdims=True), m2.V.mean(axis=1, keepdims=True)
                H = (m2.V - c2) @ (mesh.V - c0).T
                U, _, Vt = np.linalg.svd(H)
                Rm = U @ np.diag([1, 1, np.linalg.det(U @ Vt)]) @ Vt
                X2 = Rm @ (X - c0) + c2
            else:
                Rm = None
                X2 = X * s_
            where2 = locate(m2, X2)
            for fam, op, tk, sk, k in cfgs + ([("laplace", "single_layer", "P1i", "P1i", None)] if open_grid else []):
                cid = "%s:%s:%s.%s[%s,%s]" % (mname, aname, fam, op, tk, sk)
                if not ctx.want(cid):
                    continue
                if aname.endswith("_only_plain") and not ((aname == "flip_vs_trial_flag_only_plain" and op == "double_layer") or (aname == "flip_vs_test_flag_only_plain" and op == "adjoint_double_layer")):
                    continue
                if aname.endswith("_only") and not (op in ("double_layer", "adjoint_double_layer", "hypersingular", "magnetic_field") or "SNC" in (tk, sk)):
                    continue   # one-sided flags only where the normal enters the operator
                with ctx.guard(cid, "equivariance:%s" % aname):
                    sw1, sw2 = swapped0 if swapped0 is not None else (None, None)
                    trial, test = spaces(grid, tk, sk, sw1, open_grid)
                    trial2, test2 = spaces(grid2, tk, sk, sw2, open_grid)
                    Pt, dt, okt = signed_permutation(basis_matrix(trial, where0, Rm), basis_matrix(trial2, where2))
                    Ps, ds, oks = signed_permutation(basis_matrix(test, where0, Rm), basis_matrix(test2, where2))
                    if not (okt and oks) or max(dt, ds) > 1e-9:
                        ctx.violation("equivariance:%s:spaces_not_related_by_signed_permutation" % aname,
                                      "%s: trial defect %.2e (ok=%s), test defect %.2e (ok=%s)" % (cid, dt, okt, ds, oks), cid)
                        continue
                    k2 = None if k is None else k / s_
                    factor = float(s_) ** (-HOMOGENEITY[op])  # A(m) = s^-h A(s m, k/s)
                    descr = {"mesh": mesh.describe(), "action": aname, "op": fam + "." + op, "spaces": [tk, sk], "k": k}
                    if mode in ("round", "round_far"):
                        A = assemble(fam, op, trial, test, k, 4, 4)
                        B = assemble(fam, op, trial2, test2, k2, 4, 4)
                        tol = 1e-10 if mode == "round" else 1e-10 * 10 * 1e3
                        dev = compare(cid, "equivariance:%s:%s.%s" % (aname, fam, op), A, B, Pt, Ps, factor, tol)
                        ctx.case(cid, dict(descr, rel_dev=dev, tolerance=tol))
                    else:
                        A = assemble(fam, op, trial, test, k, 4, 4, part="regular")
                        B = assemble(fam, op, trial2, test2, k2, 4, 4, part="regular")
                        dev = compare(cid, "equivariance:%s:regular_part:%s.%s" % (aname, fam, op), A, B, Pt, Ps, factor, 1e-10)
                        devs = []
                        if fam != "sparse":
                            for so in SING_ORDERS:
                                A = assemble(fam, op, trial, test, k, 4, so)
                                B = assemble(fam, op, trial2, test2, k2, 4, so)
                                devs.append(O.rel(A, factor * (Ps.T @ B @ Pt)))
                            top = devs[-1]
                            if not np.isfinite(top) or top > 1e-5 or (top > devs[0] / 30 and top > 1e-10):
                                ctx.violation("equivariance:%s:singular_part_no_convergence:%s.%s" % (aname, fam, op),
                                              "%s: relative difference by singular order: %s" % (cid, ["%.2e" % d for d in devs]), cid)
                        ctx.case(cid, dict(descr, regular_part_rel_dev=dev, full_by_singular_order=devs))
                for mm_, msg in rec.drain():
                    ctx.violation(mm_, "%s: %s" % (cid, msg), cid)
    ctx.lap("meshes")

    # ------------------------------------------------------------------ multi-domain grid with junction edges (3 elements per edge):
    # spaces on segments (one closed body of a multitrace configuration), element renumbering that moves the interface
    # elements from the front to the back of the numbering
    mt = M.multitrace_cubes()
    mt = M.distort(mt, ctx.rng("mt"), jitter=0.04, strength=0.15, min_angle=20.0)
    iface = np.flatnonzero(mt.D == 2)
    rest = np.flatnonzero(mt.D != 2)
    variants = [("interface_first", np.concatenate([iface, rest])), ("interface_last", np.concatenate([rest, iface]))]
    mt_a = M.permute_elements(mt, variants[0][1])
    mt_b = M.permute_elements(mt, variants[1][1])
    ga, gb = M.to_grid(mt_a), M.to_grid(mt_b)
    Xmt = sample_points(mt_a)
    wa, wb = locate(mt_a, Xmt), locate(mt_b, Xmt)
    for segs in ([0, 2], [1, 2]):
        for fam, op, tk, sk, k in [("maxwell", "electric_field", "RWG", "SNC", 0.9), ("laplace", "single_layer", "P1", "DP0", None)] + \
                ([] if ctx.quick else [("maxwell", "magnetic_field", "RWG", "SNC", 1.1 + 0.2j), ("helmholtz", "double_layer", "P1", "P1", 1.2)]):
            cid = "multitrace:segments%s:%s.%s" % (segs, fam, op)
            if not ctx.want(cid):
                continue
            with ctx.guard(cid, "equivariance:renumber_junction"):
                mk = lambda g, kind: api.function_space(g, *KA[kind], segments=segs)  # noqa: E731
                tr_a, te_a, tr_b, te_b = mk(ga, tk), mk(ga, sk), mk(gb, tk), mk(gb, sk)
                Pt, dt, okt = signed_permutation(basis_matrix(tr_a, wa), basis_matrix(tr_b, wb))
                Ps, ds, oks = signed_permutation(basis_matrix(te_a, wa), basis_matrix(te_b, wb))
                if not (okt and oks) or max(dt, ds) > 1e-9:
                    ctx.violation("equivariance:renumber_junction:spaces_not_related_by_signed_permutation",
                                  "%s: trial defect %.2e (ok=%s), test defect %.2e (ok=%s): the space on segments %s depends on the element numbering"
                                  % (cid, dt, okt, ds, oks, segs), cid)
                    continue
                A = assemble(fam, op, tr_a, te_a, k, 4, 4, part="regular")
                B = assemble(fam, op, tr_b, te_b, k, 4, 4, part="regular")
                dev = compare(cid, "equivariance:renumber_junction:regular_part:%s.%s" % (fam, op), A, B, Pt, Ps, 1.0, 1e-10)
                devs = []
                for so in SING_ORDERS:
                    A = assemble(fam, op, tr_a, te_a, k, 4, so)
                    B = assemble(fam, op, tr_b, te_b, k, 4, so)
                    devs.append(O.rel(A, Ps.T @ B @ Pt))
                ctx.case(cid, {"mesh": "multitrace", "segments": segs, "op": fam + "." + op, "regular_part_rel_dev": dev, "full_by_singular_order": devs})
                top = devs[-1]
                if not np.isfinite(top) or top > 1e-5 or (top > devs[0] / 30 and top > 1e-10):
                    ctx.violation("equivariance:renumber_junction:singular_part_no_convergence:%s.%s" % (fam, op), "%s: %s" % (cid, ["%.2e" % d for d in devs]), cid)
            for mm_, msg in rec.drain():
                ctx.violation(mm_, "%s: %s" % (cid, msg), cid)
    ctx.lap("multitrace")

    # ------------------------------------------------------------------ class-complete two-element family
    rngc = ctx.rng("classes")
    A0, B0 = np.zeros(3), np.array([1.0, 0.05, -0.02])
    C0, D0 = np.array([0.45, 0.9, 0.1]), np.array([0.55, -0.8, 0.35])
    F0, G0 = np.array([-0.9, 0.3, 0.5]), np.array([-0.7, -0.6, -0.3])
    perms = list(itertools.permutations(range(3)))
    fam_cases = []
    base_e = ([A0, B0, C0], [A0, B0, D0])   # share A, B
    base_v = ([A0, B0, C0], [A0, F0, G0])   # share A
    for kind, (t1, t2) in (("edge", base_e), ("vertex", base_v)):
        for p1 in perms:
            for p2 in perms:
                fam_cases.append((kind, p1, p2, t1, t2))
    canon = {}
    ops2 = [("laplace", "single_layer", "DP1", "DP1", None), ("helmholtz", "double_layer", "DP1", "DP0", 1.2 - 0.3j)]
    if not ctx.quick:
        ops2 += [("laplace", "hypersingular", "DP1", "DP1", None), ("modified_helmholtz", "adjoint_double_layer", "DP0", "DP1", 0.8), ("laplace", "adjoint_double_layer", "DP1", "DP1", None)]
    for kind, p1, p2, t1, t2 in fam_cases:
        pts = t1 + [q for q in t2 if not any(q is r for r in t1)]
        idx = {id(q): i for i, q in enumerate(pts)}
        V = np.array(pts).T
        e1 = [idx[id(t1[i])] for i in p1]
        e2 = [idx[id(t2[i])] for i in p2]
        mesh = M.Mesh(V, np.array([e1, e2]).T, name="%s%s%s" % (kind, "".join(map(str, p1)), "".join(map(str, p2))))
        grid = M.to_grid(mesh)
        ea, va = np.asarray(grid.edge_adjacency), np.asarray(grid.vertex_adjacency)
        adj_seen["edge"] |= {tuple(c) for c in ea[2:].T.tolist()}
        adj_seen["vertex"] |= {tuple(c) for c in va[2:].T.tolist()}
        if kind not in canon:
            canon[kind] = (mesh, grid, sample_points(mesh))
            continue
        m0, g0, X = canon[kind]
        where0, where2 = locate(m0, X), locate(mesh, X)
        for fam, op, tk, sk, k in ops2:
            cid = "class:%s:%s.%s" % (mesh.name, fam, op)
            if not ctx.want(cid):
                continue
            with ctx.guard(cid, "equivariance:adjacency_class"):
                trial, test = spaces(g0, tk, sk)
                trial2, test2 = spaces(grid, tk, sk)
                Pt, dt, okt = signed_permutation(basis_matrix(trial, where0), basis_matrix(trial2, where2))
                Ps, ds, oks = signed_permutation(basis_matrix(test, where0), basis_matrix(test2, where2))
                if not (okt and oks):
                    ctx.violation("equivariance:adjacency_class:spaces_not_related_by_signed_permutation", cid, cid)
                    continue
                # a flipped element reverses its normal: compensate with the swapped-normals flag so that the operator is the same
                devs = []
                for so in SING_ORDERS:
                    A = assemble(fam, op, trial, test, k, 4, so)
                    B = assemble(fam, op, trial2, test2, k, 4, so)
                    # orientation of each element relative to the canonical one (sign of the permutation)
                    sg = [1.0 if _even(p) else -1.0 for p in (p1, p2)]
                    Sn_t = _normal_sign_matrix(trial2, sg) if op in ("double_layer", "hypersingular") else None
                    Sn_s = _normal_sign_matrix(test2, sg) if op in ("adjoint_double_layer", "hypersingular") else None
                    Bc = B
                    if Sn_t is not None:
                        Bc = Bc @ Sn_t
                    if Sn_s is not None:
                        Bc = Sn_s @ Bc
                    devs.append(O.rel(A, Ps.T @ Bc @ Pt))
                ctx.case(cid, {"class": mesh.name, "op": fam + "." + op, "by_singular_order": devs})
                top = devs[-1]
                if not np.isfinite(top) or top > 1e-5 or (top > devs[0] / 30 and top > 1e-10):
                    ctx.violation("equivariance:adjacency_class:%s:%s.%s" % (kind, fam, op), "%s: relative difference by singular order: %s" % (cid, ["%.2e" % d for d in devs]), cid)
            for mm_, msg in rec.drain():
                ctx.violation(mm_, "%s: %s" % (cid, msg), cid)
    ctx.lap("adjacency_classes")
    ctx.note("worst_rel_dev_by_action", worst)
    ctx.note("edge_adjacency_classes_seen", len(adj_seen["edge"]))
    ctx.note("vertex_adjacency_classes_seen", len(adj_seen["vertex"]))
    ctx.note("launch_recorder", rec.summary())
    partial = ctx.only_case is not None or bool(ctx.args.only)
    ctx.obligation("all 18 edge classes and 9 vertex classes reached the singular assembler",
                   partial or (len(adj_seen["edge"]) == 18 and len(adj_seen["vertex"]) == 9), {k: len(v) for k, v in adj_seen.items()})
    ctx.finish()


def _even(p):
    return sum(1 for i in range(3) for j in range(i + 1, 3) if p[i] > p[j]) % 2 == 0


def _normal_sign_matrix(space, sg):
    """Diagonal matrix with the orientation sign of the element each DOF of an element-wise space lives on."""
    n = space.global_dof_count
    d = np.ones(n)
    l2g = np.asarray(space.local2global).astype(int)
    for e in range(l2g.shape[0]):
        for l in range(l2g.shape[1]):
            d[l2g[e, l]] = sg[e]
    return np.diag(d)


if __name__ == "__main__":
    main()
