"""C02 — Laplace potential operators reproduce Green's representation formula.

Oracle: analytic. SL[a.n](x) - DL[u](x) = u(x) strictly inside, 0 strictly outside, for every affine u; inside/outside
is decided by the reference model's solid-angle winding number; decided by convergence in the regular order.
Whole-grid densities and the same density split into segment-wise pieces (with / without swapped normals,
compensated by sign) must give the same potential to rounding.
"""

import numpy as np

from vlib import boot
from vlib.verdict import Ctx

LADDER = [4, 8, 12, 16]


def pool(M, ctx):
    rng = ctx.rng("pool")
    mild = dict(jitter=0.05, strength=0.2, min_angle=20.0)
    out = [("icosa_r2", M.distort(M.refine(M.icosahedron(), 2), rng, **mild)),
           ("cube_r3", M.distort(M.refine(M.cube(face_domains=True), 3), rng, **mild)),
           ("two_solids_r3", M.refine(M.two_solids(), 3)),
           # closed and outward oriented, but not a manifold: two cubes touching along one edge (that edge has 4 neighbours)
           ("cubes_edge_touch_r2", M.refine(M.voxel_surface([(0, 0, 0), (1, 1, 0)]), 2))]
    if not ctx.quick:
        out += [("lprism_r3", M.distort(M.refine(M.l_prism(), 3), rng, **mild)),
                ("torus36x18", M.distort(M.torus(36, 18, R=1.0, r=0.45), rng, **mild)),
                ("octa_r3", M.distort(M.refine(M.octahedron(), 3), rng, **mild)),
                ("shell_r2", M.refine(M.nested_shell(), 2)),
                ("voxring_r2", M.distort(M.refine(M.voxel_ring(), 2), rng, **mild)),
                ("dented_r1", M.distort(M.refine(M.dented_block(), 1), rng, **mild)),
                ("ellipsoid", M.distort(M.project_to_ellipsoid(M.refine(M.icosahedron(), 2), (1.0, 0.7, 0.5)), rng, **mild)),
                ("tetra_r3", M.distort(M.refine(M.tetrahedron(), 3), rng, **mild))]
        for name, m in list(out[:3]):
            for s, t in ((1e-3, 0.0), (1e3, 0.0), (1.0, 1e3)):
                mm = M.scale(m, s)
                mm.V = mm.V + t * mm.diameter() * np.array([[0.3], [-0.5], [0.8]])
                out.append(("%s|s%g|t%g" % (name, s, t), mm))
    return out


def sample_points(R, mesh, rng, n, hmax):
    """Points strictly inside / outside, at least hmax from the surface, classified by the winding number.

    Distance filter (vectorised, conservative): dist(x, triangle) >= |x - centroid| - radius(triangle)."""
    lo, hi = mesh.V.min(axis=1), mesh.V.max(axis=1)
    span = hi - lo
    cen = mesh.centroids()
    rad = np.max([np.linalg.norm(mesh.V[:, mesh.E[l]].T - cen, axis=1) for l in range(3)], axis=0)
    inside, outside = [], []
    for phase, want in (("in", inside), ("out", outside)):
        for _ in range(60):
            if len(want) >= n:
                break
            if phase == "in":
                X = lo + rng.random((4000, 3)) * span
            else:
                X = lo - 1.5 * span + rng.random((400, 3)) * 4 * span
            d = (np.linalg.norm(X[:, None, :] - cen[None], axis=2) - rad[None]).min(axis=1)
            for x in X[d >= 1.02 * hmax]:
                w = R.solid_angle_sum(mesh.V, mesh.E, x)
                if phase == "in" and abs(w - 1) < 1e-6:
                    want.append(x)
                elif phase == "out" and abs(w) < 1e-6:
                    want.append(x)
                if len(want) >= n:
                    break
    return np.array(inside).reshape(-1, 3).T, np.array(outside).reshape(-1, 3).T


def main():
    ctx = Ctx("C02")
    ctx.rule = ("closed meshes fine enough to have interior points one element diameter from the surface x random affine u x interior/exterior points "
                "(winding number 1 / 0) x regular orders %s; whole-grid spaces and segment-wise pieces. A case = (mesh, u, point set); "
                "distinct by (mesh hash, u); non-trivial = has interior and exterior points." % (LADDER,))
    ctx.assumptions = ["violated iff max error at order 16 >= 1e-6*max|u| or it is not >= 30x below order 4 (unless < 1e-12)",
                       "winding number by Van Oosterom-Strackee in vlib.refmodel; points with ambiguous winding number are discarded"]
    boot.boot()
    import bempp_cl.api as api
    from vlib import meshes as M, monitors as mon, ops as O, refmodel as R

    rec = mon.LAUNCH.install()
    if not ctx.worker:
        ctx.spawn_san("checks.C02")
    meshes = pool(M, ctx)
    if ctx.worker == "san":
        meshes = meshes[:2]
    npts = 20 if ctx.quick else 100
    nu = 2 if ctx.quick else 4
    worst = {"inside": 0.0, "outside": 0.0, "pieces": 0.0}
    n_in = n_out = 0
    for name, m in meshes:
        rng = ctx.rng(name)
        circ = max(R.circumdiameter(m.V[:, m.E[:, e]]) for e in range(m.ne))
        xin, xout = sample_points(R, m, rng, npts, circ)
        pts = np.hstack([xin, xout])
        grid = M.to_grid(m)
        p1 = api.function_space(grid, "P", 1)
        dp0 = api.function_space(grid, "DP", 0)
        for ui in range(nu):
            cid = "%s:u%d" % (name, ui)
            if not ctx.want(cid):
                continue
            a = rng.normal(size=3)
            a /= np.linalg.norm(a)
            c0 = m.V.mean(axis=1)
            b = float(rng.normal()) * m.diameter() - a @ c0 * (ui % 2)
            with ctx.guard(cid, "green"):
                g, psi = O.affine_traces(p1, dp0, a, b)
                gf_g = api.GridFunction(p1, coefficients=g)
                gf_psi = api.GridFunction(dp0, coefficients=psi)
                uscale = max(np.abs(a @ m.V + b).max(), 1e-300)
                uex = np.concatenate([a @ xin + b, np.zeros(xout.shape[1])]) if pts.size else np.zeros(0)
                errs = []
                ladder = LADDER if ctx.worker != "san" else [4, 8]
                for r in ladder:
                    par = O.params(api, r, 4)
                    sl = O.potential(api, "laplace", "single_layer", dp0, pts, parameters=par).evaluate(gf_psi)
                    dl = O.potential(api, "laplace", "double_layer", p1, pts, parameters=par).evaluate(gf_g)
                    val = np.asarray(sl - dl).ravel()
                    if not np.all(np.isfinite(val)):
                        ctx.violation("green:non_finite", "%s order %d" % (cid, r), cid)
                    errs.append(float(np.abs(val - uex).max() / uscale))
                    ctx.diff("green:%s:r%d" % (cid, r), val, scale=uscale)
                n_in += xin.shape[1]
                n_out += xout.shape[1]
                ctx.case(cid, {"mesh": m.describe(), "a": a, "b": b, "points_inside": xin.shape[1], "points_outside": xout.shape[1], "errs": errs},
                         nontrivial=xin.shape[1] > 0 and xout.shape[1] > 0)
                if ctx.worker != "san":
                    ein = float(np.abs(val[: xin.shape[1]] - uex[: xin.shape[1]]).max() / uscale) if xin.shape[1] else 0.0
                    eout = float(np.abs(val[xin.shape[1]:]).max() / uscale) if xout.shape[1] else 0.0
                    worst["inside"] = max(worst["inside"], ein)
                    worst["outside"] = max(worst["outside"], eout)
                    top = errs[-1]
                    if not np.isfinite(top) or top >= 1e-6:
                        which = "inside" if ein >= eout else "outside"
                        ctx.violation("green:not_below_1e-6:" + which, "%s: max error / max|u| along the ladder %s" % (cid, ["%.2e" % e for e in errs]), cid,
                                      data={"V": m.V, "E": m.E, "a": a, "b": b, "points": pts})
                    elif top > errs[0] / 30 and top > 1e-12:
                        ctx.violation("green:no_convergence", "%s: %s" % (cid, ["%.2e" % e for e in errs]), cid)
                # ---- the same ladder driven through the GLOBAL parameter object and through ONE reused explicit object whose
                # order is changed between constructions (a convergence sweep as a user would write it): same values as above
                if ui == 0 and ctx.worker != "san":
                    GP = api.GLOBAL_PARAMETERS
                    saved_r = GP.quadrature.regular
                    reused = api.DefaultParameters()
                    try:
                        for mode in ("global", "reused_object"):
                            errs2 = []
                            for r in ladder:
                                if mode == "global":
                                    GP.quadrature.regular = r
                                    par = None
                                else:
                                    reused.quadrature.regular = r
                                    par = reused
                                sl = O.potential(api, "laplace", "single_layer", dp0, pts, parameters=par).evaluate(gf_psi)
                                dl = O.potential(api, "laplace", "double_layer", p1, pts, parameters=par).evaluate(gf_g)
                                errs2.append(float(np.abs(np.asarray(sl - dl).ravel() - uex).max() / uscale))
                            ctx.count("ladders_through_%s_parameters" % mode)
                            if not all(abs(e2 - e1) <= 1e-12 + 1e-6 * e1 for e1, e2 in zip(errs, errs2)):
                                ctx.violation("green:order_not_honoured:%s_parameters" % mode,
                                              "%s: errors along the ladder %s with fresh explicit parameter objects %s, but %s when the order is set through %s"
                                              % (cid, ladder, ["%.2e" % e for e in errs], ["%.2e" % e for e in errs2], mode), cid)
                    finally:
                        GP.quadrature.regular = saved_r
                # ---- segment-wise pieces (same density, sum of pieces) at order 8
                par = O.params(api, 8, 4)
                whole = np.asarray(O.potential(api, "laplace", "single_layer", dp0, pts, parameters=par).evaluate(gf_psi)
                                   - O.potential(api, "laplace", "double_layer", p1, pts, parameters=par).evaluate(gf_g)).ravel()
                # "every evaluation point": the value at a point does not depend on how many points are evaluated with it
                # (1, 2, 3 = as many points as coordinates, 4 points; documented layout (3, N))
                for npt_ in (1, 2, 3, 4):
                    sub = np.ascontiguousarray(pts[:, :npt_])
                    part = np.asarray(O.potential(api, "laplace", "single_layer", dp0, sub, parameters=par).evaluate(gf_psi)
                                      - O.potential(api, "laplace", "double_layer", p1, sub, parameters=par).evaluate(gf_g)).ravel()
                    dsub = float(np.abs(part - whole[:npt_]).max() / max(np.abs(whole).max(), 1e-300)) if part.shape == whole[:npt_].shape else np.inf
                    ctx.count("point_subset_comparisons")
                    if not (dsub <= 1e-12):
                        ctx.violation("green:value_depends_on_number_of_points", "%s: evaluating the first %d of %d points alone changes their values by %.3e (relative to max |u|)"
                                      % (cid, npt_, pts.shape[1], dsub), cid)
                mseg = m if len(set(m.D.tolist())) > 1 else M.assign_domains(m, rng, 3, values=[4, 1, 8])
                gseg = M.to_grid(mseg)
                doms = sorted(set(mseg.D.tolist()))
                for swapped in (False, True):
                    total = np.zeros_like(whole)
                    for d in doms:
                        sw = [d] if (swapped and d == doms[0]) else None
                        sdp0 = api.function_space(gseg, "DP", 0, segments=[d], swapped_normals=sw)
                        sp1 = api.function_space(gseg, "P", 1, segments=[d], include_boundary_dofs=True, truncate_at_segment_edge=True, swapped_normals=sw)
                        gg, pp = O.affine_traces(sp1, sdp0, a, b)
                        # affine_traces multiplies a.n by the normal multiplier: with swapped normals the *physical* outward
                        # normal derivative is -(a . n_swapped); compensate by sign so that the density is the same function
                        sgn = -1.0 if sw else 1.0
                        total += np.asarray(O.potential(api, "laplace", "single_layer", sdp0, pts, parameters=par).evaluate(api.GridFunction(sdp0, coefficients=sgn * pp))).ravel()
                        total -= sgn * np.asarray(O.potential(api, "laplace", "double_layer", sp1, pts, parameters=par).evaluate(api.GridFunction(sp1, coefficients=gg))).ravel()
                    dev = float(np.abs(total - whole).max() / max(uscale, np.abs(whole).max()))
                    worst["pieces"] = max(worst["pieces"], dev)
                    ctx.diff("pieces:%s:%s" % (cid, swapped), total, scale=uscale)
                    if dev > 1e-11:
                        ctx.violation("green:segment_pieces_differ:" + ("swapped_normals" if swapped else "plain"),
                                      "%s: sum over %d segment-wise pieces differs from the whole-grid potential by %.3e" % (cid, len(doms), dev), cid)
            for mm, msg in rec.drain():
                ctx.violation(mm, msg, cid)
    ctx.note("worst", worst)
    ctx.note("points", {"inside": n_in, "outside": n_out})
    ctx.note("launch_recorder", rec.summary())
    partial = ctx.only_case is not None or bool(ctx.args.only) or bool(ctx.worker)
    ctx.obligation("interior and exterior points both evaluated", partial or (n_in >= 20 and n_out >= 20), {"inside": n_in, "outside": n_out})
    ctx.obligation("potential launches observed", partial or rec.counts.get("potential:default_scalar_potential_kernel", 0) > 0, rec.counts)
    ctx.finish()


if __name__ == "__main__":
    main()
