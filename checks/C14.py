"""C14 — operator / grid-function / potential algebra is coherent.

Workload: PROGRAMS. An expression tree over a pool of assembled boundary operators (several space triples on three small
grids, real and complex, a zero operator), blocked and generalized blocked operators, discrete operators (dense, sparse,
inverse sparse, diagonal, rank one, zero, blocked), potential operators, grid functions (primal and dual representation) and
scalars (int, float, complex, np.float32/64, np.complex64/128, np.int64) is generated bottom-up: the generator picks an
operation and a first operand, asks the TYPE CHECKER of the reference model which second operands are admissible, and either
takes an admissible one (well-typed by construction) or an inadmissible one (ill-typed stream, classified by the reason:
which space differs, equal or different DOF count, same or other grid, evaluation points, block shape, list length).
A deterministic prefix runs one well-typed program per operation and one ill-typed program per (operation, reason) reachable
from the pool leaves; the remainder is seeded random exploration up to depth 4 (quick) / 6 (thorough).

Reference model (never the library's own algebra):
 * every value carries a dense matrix / vector in NumPy plus space descriptors. Space descriptors are keyed by how the check
   constructed the space (grid object, kind, degree, segment), which is the library's documented notion of compatibility
   (same object or equal `space.hash`): two P1 spaces built twice on one grid are compatible, the same space on a copy of
   the grid is not. The library's `==` / `is_compatible` is compared with this key on all pool pairs.
 * sum / difference / scalar multiple / negation act entrywise with NumPy promotion; A*B has the weak form
   W_A pinv(M) W_B with M the mass matrix (dense matrix of the sparse identity) of (range of B, dual of B);
   strong_form = pinv(M(range, dual)) W; A*f is the grid function in A.range whose projections on A.dual_to_range are
   W_A f.coefficients (blocked: the stacked projection vector is cut by the DUAL spaces' DOF counts);
   discrete operators: to_dense == columns by matvec == matmat, `@`, `*`, `.dot`, transpose / adjoint, a real operator on a
   complex vector acts on real and imaginary part; potential operators: linear in the operator, `.space`,
   `.component_count`, `.evaluation_points` of every derived operator.
 * tolerance (derived, not tuned): |lib - model|_F <= 1e-10 * mag, where mag is a bound of the magnitude of the terms that
   went into the value (||W|| of leaves, added in sums, multiplied with |alpha| and ||pinv M||_2 in products), so that
   cancellation cannot produce false alarms; values touched by single precision data use 5e-5. Observed on the unchanged
   tree: <= 1e-13.
 * dtypes: the dtype of every result (declared operator dtype, dense matrix, coefficient vector) must be complex exactly if
   NumPy promotion of the operands is complex, and must hold the model dtype without loss (np.can_cast safe).
Every well-typed program must succeed (any exception is a violation, except NotImplementedError from transpose/adjoint of
operator classes that do not offer one: logged as rejected_by_library). Every ill-typed program must not yield numbers: an
exception, NotImplemented, or an object from which no number can be extracted (weak_form/to_dense/evaluate/coefficients
raise) is fine; numbers are the violation.
"""

import re

import numpy as np

from vlib import boot
from vlib.verdict import Ctx

TOL = 1e-10
TOL_SINGLE = 5e-5

CLS = {"bop": "boundary_operator", "blk": "blocked_operator", "dop": "discrete_operator", "pot": "potential_operator",
       "gf": "grid_function", "gfl": "grid_function_list", "arr": "array", "sc": "scalar"}
PREFIX = {"bop": "b", "blk": "B", "dop": "D", "pot": "P", "gf": "f", "sc": "s"}


class SpaceD:
    def __init__(self, name, key, space):
        self.name, self.key, self.space = name, key, space
        self.n = int(space.global_dof_count)
        self.grid = key[0]

    def __repr__(self):
        return self.name


class Val:
    __slots__ = ("kind", "lib", "m", "depth", "expr", "mag", "single", "feat", "fresh_fn", "is_leaf")

    def __init__(self, kind, lib, m, mag, depth=0, expr="", single=False, feat=frozenset(), fresh_fn=None, is_leaf=False):
        self.kind, self.lib, self.m, self.mag = kind, lib, m, float(mag)
        self.depth, self.expr, self.single, self.feat = depth, expr, single, frozenset(feat)
        self.fresh_fn = fresh_fn
        self.is_leaf = is_leaf

    def get(self):
        """Library object to hand to an operation (dual-representation leaf functions are rebuilt, because reading
        `.coefficients` turns a GridFunction permanently into the primal representation)."""
        return self.fresh_fn() if self.fresh_fn is not None else self.lib


class Op:
    def __init__(self, name, cls, opname, kinds, out, lib, model, check=None, variadic=False):
        self.name, self.cls, self.opname, self.kinds, self.out = name, cls, opname, tuple(kinds), out
        self.lib, self.model, self.check, self.variadic = lib, model, check, variadic


class ModelDomainError(Exception):
    """The reference model has no answer (singular mass matrix): the program is outside the property's domain."""


def is_single(dt):
    return np.dtype(dt) in (np.dtype("float32"), np.dtype("complex64"))


def dtype_ok(got, want, single=False):
    """`got`: dtype reported by the library; `want`: model array (NumPy promotion of the operands).
    Violated if the reported dtype cannot hold the model value: real where the model has a non-zero imaginary part
    (a silently dropped imaginary part), or a lower precision than NumPy promotion gives. A real zero for a complex zero
    (ZeroDiscreteBoundaryOperator on a complex vector) or a complex dtype for a real value loses nothing and is accepted."""
    got = np.dtype(got)
    want = np.asarray(want)
    if got.kind not in "fc":
        return False
    if want.dtype.kind == "c" and got.kind != "c" and np.any(want.imag != 0):
        return False
    if single:
        return True   # single-precision operands: the library computes in the operator's precision (only a dropped imaginary part counts)
    prec = {"float32": 4, "complex64": 4, "float64": 8, "complex128": 8}
    return prec.get(got.name, 16) >= prec.get(want.dtype.name, 8)


def frob(x):
    return float(np.linalg.norm(np.asarray(x).ravel()))


# ===================================================================================================================== Env
class Env:
    def __init__(self, ctx, api, M, O):
        self.ctx, self.api, self.M, self.O = ctx, api, M, O
        self.sp = {}
        self.sp_by_id = {}
        self.leaves = {}
        self.pop = {k: [] for k in ("bop", "blk", "dop", "pot", "gf", "gfl", "sc")}
        self._mass = {}
        self.ops = {}
        self.well_count = {}
        self.try_count = {}
        self.ill_count = {}
        self.ill_seen = {}
        self.pairs = {}
        self.scalar_types = {}
        self.stats = {"programs": 0, "well": 0, "ill": 0, "max_depth": 0, "well_failed": 0, "ill_accepted": 0,
                      "dual_gf_operands": 0, "twin_space_programs": 0, "complex_programs": 0, "single_programs": 0,
                      "by_parts": 0, "matvec_columns": 0, "matmat": 0}
        self.depth_hist = {}
        self.worst = 0.0
        self.par = O.params(api, 2, 2)
        self.maxdepth = 4 if ctx.quick else 6

    # ------------------------------------------------------------------------------------------------------- spaces
    def add_space(self, name, key, space):
        d = SpaceD(name, key, space)
        self.sp[name] = d
        self.sp_by_id[id(space)] = d
        return d

    def sd(self, space):
        d = self.sp_by_id.get(id(space))
        if d is not None:
            return d
        h = space.hash
        for c in self.sp.values():
            if c.space.hash == h:
                return c
        return SpaceD("unknown", ("?", h), space)

    def mass(self, a, b):
        """Dense mass matrix of (trial a, test b): rows = DOFs of b."""
        k = (a.key, b.key)
        if k not in self._mass:
            if a.grid != b.grid:
                raise ValueError("model: mass matrix across grids requested")
            Mm = np.asarray(self.api.operators.boundary.sparse.identity(a.space, a.space, b.space, parameters=self.par).weak_form().to_dense())
            cond = float(np.linalg.cond(Mm))
            if not cond < 1e3:
                raise ModelDomainError("mass matrix of (%s, %s) has condition %.2e: outside the property's domain" % (a.name, b.name, cond))
            Mi = np.linalg.pinv(Mm)
            self.ctx.note_max("max_cond_mass_matrix", cond)
            self._mass[k] = (Mm, Mi, float(np.linalg.norm(Mi, 2)), float(np.linalg.norm(Mm, 2)))
        return self._mass[k]

    def pinvM(self, ran, dual):
        Mm, Mi, ni, nm = self.mass(ran, dual)
        return Mi, ni

    # ------------------------------------------------------------------------------------------------------- leaves
    def leaf(self, kind, name, lib, m, mag, feat=(), fresh_fn=None):
        expr = PREFIX[kind] + ":" + name
        assert re.fullmatch(r"[A-Za-z]:[A-Za-z0-9_]+", expr), expr
        single = False
        for key in ("W", "c", "P"):
            if isinstance(m, dict) and key in m:
                single = single or is_single(np.asarray(m[key]).dtype)
        v = Val(kind, lib, m, mag, 0, expr, single, feat, fresh_fn, True)
        self.leaves[expr] = v
        self.pop[kind].append(v)
        return v

    def bop_leaf(self, name, lib, dom, ran, dual, feat=()):
        W = np.array(lib.weak_form().to_dense())
        return self.leaf("bop", name, lib, dict(W=W, dom=self.sp[dom], ran=self.sp[ran], dual=self.sp[dual]), frob(W),
                         set(feat) | ({"complex"} if np.iscomplexobj(W) else set()))

    def blk_leaf(self, name, lib, grid_of_leaves, feat=()):
        """grid_of_leaves: 2-d list of bop leaf names or None (the block structure the check put in)."""
        rows, cols = len(grid_of_leaves), len(grid_of_leaves[0])
        doms, rans, duals = [None] * cols, [None] * rows, [None] * rows
        for i in range(rows):
            for j in range(cols):
                nm = grid_of_leaves[i][j]
                if nm is None:
                    continue
                b = self.leaves["b:" + nm].m
                doms[j], rans[i], duals[i] = b["dom"], b["ran"], b["dual"]
        blocks = []
        for i in range(rows):
            row = []
            for j in range(cols):
                nm = grid_of_leaves[i][j]
                row.append(np.zeros((duals[i].n, doms[j].n)) if nm is None else self.leaves["b:" + nm].m["W"])
            blocks.append(row)
        W = np.block(blocks)
        return self.leaf("blk", name, lib, dict(W=W, doms=doms, rans=rans, duals=duals), frob(W),
                         set(feat) | ({"complex"} if np.iscomplexobj(W) else set()))

    def dop_leaf(self, name, lib, W, feat=()):
        W = np.array(W)
        return self.leaf("dop", name, lib, dict(W=W), frob(W), set(feat) | ({"complex"} if np.iscomplexobj(W) else set()))

    def pot_leaf(self, name, lib, space, pts, feat=()):
        s = self.sp[space]
        cols = []
        ncomp = None
        for j in range(s.n):
            e = np.zeros(s.n)
            e[j] = 1.0
            r = np.asarray(lib.evaluate(self.api.GridFunction(s.space, coefficients=e)))
            ncomp = r.shape[0]
            cols.append(r.reshape(-1))
        P = np.array(cols).T
        return self.leaf("pot", name, lib, dict(P=P, space=s, pts=np.array(pts), ncomp=int(ncomp)), frob(P),
                         set(feat) | ({"complex"} if np.iscomplexobj(P) else set()))

    def gf_leaf(self, name, space, c=None, dual=None, proj=None, feat=()):
        s = self.sp[space]
        api = self.api
        if proj is None:
            c = np.array(c)
            lib = api.GridFunction(s.space, coefficients=c)
            return self.leaf("gf", name, lib, dict(c=c, space=s, dual=None, proj=None, pmag=0.0), frob(c),
                             set(feat) | ({"complex"} if np.iscomplexobj(c) else set()))
        dd = self.sp[dual]
        proj = np.array(proj)
        Mi, ni = self.pinvM(s, dd)
        cc = Mi @ proj

        def fresh():
            return api.GridFunction(s.space, projections=proj.copy(), dual_space=dd.space)

        return self.leaf("gf", name, fresh(), dict(c=cc, space=s, dual=dd, proj=proj, pmag=frob(proj)), ni * frob(proj),
                         set(feat) | {"dual_leaf"} | ({"complex"} if np.iscomplexobj(proj) else set()), fresh_fn=fresh)

    # ------------------------------------------------------------------------------------------------------- pool
    def build_pool(self):
        ctx, api, M, O = self.ctx, self.api, self.M, self.O
        par = self.par
        rng = ctx.rng("pool")
        # icosahedron: the P1-DP0 mass matrix (20 x 12) has full rank, cond 5.3. (On vertex-3-colourable triangulations such as
        # the octahedron, the cube or their refinements it is singular, which would put range != dual triples outside the property.)
        m1 = M.icosahedron()
        order = np.argsort(m1.centroids()[:, 2], kind="stable")
        m1.D[:] = 1
        m1.D[order[: m1.ne // 2]] = 2
        mt = M.tetrahedron()
        G1, G1c, G2 = M.to_grid(m1), M.to_grid(m1), M.to_grid(mt)
        fs = api.function_space
        self.add_space("p", ("G1", "P", 1), fs(G1, "P", 1))
        self.add_space("pb", ("G1", "P", 1), fs(G1, "P", 1))  # second object, equal by hash
        self.add_space("d", ("G1", "DP", 0), fs(G1, "DP", 0))
        self.add_space("pc", ("G1c", "P", 1), fs(G1c, "P", 1))  # same mesh data, other Grid object
        self.add_space("dc", ("G1c", "DP", 0), fs(G1c, "DP", 0))
        self.add_space("q", ("G2", "P", 1), fs(G2, "P", 1))  # tetrahedron: P1 and DP0 both have 4 DOFs
        self.add_space("qd", ("G2", "DP", 0), fs(G2, "DP", 0))
        self.add_space("ds1", ("G1", "DP", 0, "seg1"), fs(G1, "DP", 0, segments=[1]))
        self.add_space("ds2", ("G1", "DP", 0, "seg2"), fs(G1, "DP", 0, segments=[2]))
        S = {k: v.space for k, v in self.sp.items()}
        ctx.note("pool_spaces", {k: {"key": list(map(str, v.key)), "dofs": v.n} for k, v in self.sp.items()})
        ctx.lap("spaces")

        def B(name, family, op, dom, ran, dual, k=None, feat=(), **kw):
            lib = O.boundary(api, family, op, S[dom], S[ran], S[dual], k=k, parameters=par, **kw)
            return self.bop_leaf(name, lib, dom, ran, dual, feat)

        B("V_dpp", "laplace", "single_layer", "d", "p", "p")
        B("K_ppp", "laplace", "double_layer", "p", "p", "p")
        B("K_b", "laplace", "double_layer", "pb", "pb", "pb", feat={"twin"})
        B("I_ppp", "sparse", "identity", "p", "p", "p")
        B("I_dpp", "sparse", "identity", "d", "p", "p")
        B("I_pdd", "sparse", "identity", "p", "d", "d")
        B("I_ddd", "sparse", "identity", "d", "d", "d")
        B("I_ppd", "sparse", "identity", "p", "p", "d")  # mass matrix of (range p, dual d) is 20 x 12
        B("I_dpd", "sparse", "identity", "d", "p", "d")
        B("H_ppp", "helmholtz", "single_layer", "p", "p", "p", k=1.3)
        B("H_ddd", "helmholtz", "single_layer", "d", "d", "d", k=1.3)
        Z = api.ZeroBoundaryOperator(S["p"], S["p"], S["p"])
        self.bop_leaf("Z_ppp", Z, "p", "p", "p")
        B("Kc", "laplace", "double_layer", "pc", "pc", "pc")
        B("Ic_ddd", "sparse", "identity", "dc", "dc", "dc")
        B("Hs1", "helmholtz", "single_layer", "ds1", "ds1", "ds1", k=1.3)
        B("Is1", "sparse", "identity", "ds1", "ds1", "ds1")
        B("Is2", "sparse", "identity", "ds2", "ds2", "ds2")
        B("K_q", "laplace", "double_layer", "q", "q", "q")
        B("K_q_rd", "laplace", "double_layer", "q", "qd", "q")  # range differs from K_q only (equal size)
        B("I_q", "sparse", "identity", "q", "q", "q")
        B("I_q_dd", "sparse", "identity", "q", "q", "qd")  # dual differs from I_q only (equal size)
        B("I_qd", "sparse", "identity", "qd", "qd", "qd")
        B("V_qdq", "laplace", "single_layer", "qd", "q", "q")  # domain differs from K_q only (equal size)
        B("I_qd_q_qd", "sparse", "identity", "qd", "q", "qd")
        # a real operator assembled in SINGLE precision (float32 dense matrix): it too acts on real and imaginary parts
        B("V_ddd_s", "laplace", "single_layer", "d", "d", "d", assembler="dense", precision="single")
        ctx.lap("boundary operators (assembly + jit)")

        L = {k[2:]: v.lib for k, v in self.leaves.items() if k.startswith("b:")}

        def blocked(name, grid, feat=()):
            rows, cols = len(grid), len(grid[0])
            bo = api.BlockedOperator(rows, cols)
            for i in range(rows):
                for j in range(cols):
                    if grid[i][j] is not None:
                        bo[i, j] = L[grid[i][j]]
            return self.blk_leaf(name, bo, grid, feat)

        g1 = [["K_ppp", "V_dpp"], ["I_pdd", "H_ddd"]]
        blocked("B1", g1)
        blocked("B2", [["K_ppp", "V_dpp"], ["I_ppd", "I_dpd"]])  # ranges (12,12), duals (12,20)
        blocked("B3", [["K_ppp", None], [None, "H_ddd"]])
        blocked("Bc", [["Kc", None], [None, "Ic_ddd"]])
        blocked("B11", [["K_ppp"]])
        blocked("B12", [["K_ppp", "V_dpp"]])
        blocked("Bq", [["K_q", "V_qdq"], [None, "I_qd"]])
        blocked("Bb", [["K_b", "V_dpp"], ["I_pdd", "H_ddd"]], feat={"twin"})
        blocked("Bq2", [["I_q_dd", "I_qd_q_qd"], [None, "I_qd"]])  # duals (qd, qd): differs from Bq in one dual space of equal size
        blocked("Bqx", [["K_q_rd", None], [None, "V_qdq"]])  # ranges (qd, q): Bq * Bqx has range/domain mismatches of equal size
        gn1 = api.GeneralizedBlockedOperator([[L[n] for n in row] for row in g1])
        self.blk_leaf("Gn1", gn1, g1)
        c0, c1 = api.BlockedOperator(2, 1), api.BlockedOperator(2, 1)
        c0[0, 0], c0[1, 0] = L["K_ppp"], L["I_pdd"]
        c1[0, 0], c1[1, 0] = L["V_dpp"], L["H_ddd"]
        gn2 = api.GeneralizedBlockedOperator([[c0, c1]])
        self.blk_leaf("Gn2", gn2, g1)
        ctx.lap("blocked operators")

        from bempp_cl.api.assembly.discrete_boundary_operator import (DiagonalOperator, DiscreteRankOneOperator,
                                                                      InverseSparseDiscreteBoundaryOperator,
                                                                      ZeroDiscreteBoundaryOperator)

        W = {k[2:]: v.m["W"] for k, v in self.leaves.items() if k.startswith("b:")}
        for nm in ("K_ppp", "H_ppp", "V_dpp", "I_ppp", "I_dpp", "I_pdd", "H_ddd", "K_q", "V_ddd_s"):
            self.dop_leaf("w_" + nm, L[nm].weak_form(), W[nm])
        self.dop_leaf("inv_pp", InverseSparseDiscreteBoundaryOperator(L["I_ppp"].weak_form()), np.linalg.inv(W["I_ppp"]))
        self.dop_leaf("inv_dd", InverseSparseDiscreteBoundaryOperator(L["I_ddd"].weak_form()), np.linalg.inv(W["I_ddd"]))
        n_p, n_d = self.sp["p"].n, self.sp["d"].n
        dv = rng.uniform(0.5, 2.0, n_p)
        dvc = rng.uniform(0.5, 2.0, n_p) + 1j * rng.uniform(-1, 1, n_p)
        self.dop_leaf("diag_r", DiagonalOperator(dv.copy()), np.diag(dv))
        self.dop_leaf("diag_c", DiagonalOperator(dvc.copy()), np.diag(dvc))
        col, row = rng.standard_normal(n_p), rng.standard_normal(n_d)
        self.dop_leaf("r1_r", DiscreteRankOneOperator(col.copy(), row.copy()), np.outer(col, row))
        colc, rowc = rng.standard_normal(n_p) + 1j * rng.standard_normal(n_p), rng.standard_normal(n_p)
        self.dop_leaf("r1_c", DiscreteRankOneOperator(colc.copy(), rowc.copy()), np.outer(colc, rowc))
        self.dop_leaf("zero", ZeroDiscreteBoundaryOperator(n_p, n_d), np.zeros((n_p, n_d)))
        for nm in ("B1", "B2", "Gn2"):
            b = self.leaves["B:" + nm]
            self.dop_leaf("w_" + nm, b.lib.weak_form(), b.m["W"])
        ctx.lap("discrete operators")

        pts = np.array([[2.0, 0.3, 0.1], [0.1, 2.5, 0.2], [0.3, -0.2, 3.0]]).T
        pts2 = np.array([[2.0, 0.3, 0.1], [0.1, 2.5, 0.2], [0.3, -0.2, 3.5]]).T
        pts4 = np.hstack([pts, np.array([[1.5], [1.5], [1.5]])])

        def P(name, family, op, space, pp, k=None, feat=()):
            lib = O.potential(api, family, op, S[space], pp.copy(), k=k, parameters=par)
            return self.pot_leaf(name, lib, space, pp, feat)

        P("sl", "laplace", "single_layer", "p", pts)
        P("dl", "laplace", "double_layer", "p", pts)
        P("hsl", "helmholtz", "single_layer", "p", pts, k=1.3)
        P("sl_b", "laplace", "single_layer", "pb", pts, feat={"twin"})
        P("sl_d", "laplace", "single_layer", "d", pts)
        P("sl_x", "laplace", "single_layer", "p", pts2)  # same number of points, one coordinate differs
        P("sl_4", "laplace", "single_layer", "p", pts4)
        P("sl_c", "laplace", "single_layer", "pc", pts)
        P("sl_q", "laplace", "single_layer", "q", pts)
        P("sl_qd", "laplace", "single_layer", "qd", pts)
        ctx.lap("potential operators (jit + model matrices)")

        def rc(n, cplx=False):
            v = rng.standard_normal(n)
            return v + 1j * rng.standard_normal(n) if cplx else v

        for s in ("p", "d", "pb", "pc", "dc", "q", "qd", "ds1", "ds2"):
            self.gf_leaf(s + "_r", s, c=rc(self.sp[s].n), feat={"twin"} if s == "pb" else ())
        for s in ("p", "d", "q", "qd", "pc"):
            self.gf_leaf(s + "_c", s, c=rc(self.sp[s].n, True))
        self.gf_leaf("p_f32", "p", c=rc(n_p).astype(np.float32))
        self.gf_leaf("p_c64", "p", c=rc(n_p, True).astype(np.complex64))
        for nm, s, dl, cplx in (("g_pp", "p", "p", False), ("g_pp2", "p", "p", False), ("g_pd", "p", "d", False), ("g_dd", "d", "d", True),
                                ("g_ppc", "p", "p", True), ("g_qqd", "q", "qd", False), ("g_qdq", "qd", "q", False), ("g_pbpb", "pb", "pb", False)):
            Mm = self.mass(self.sp[s], self.sp[dl])[0]
            self.gf_leaf(nm, s, dual=dl, proj=Mm @ rc(self.sp[s].n, cplx), feat={"twin"} if s == "pb" else ())
        ctx.lap("grid functions")

        for name, val in (("i2", 2), ("in3", -3), ("f", 0.75), ("fn", -1.25), ("c", 0.5 + 1.5j), ("f32", np.float32(1.5)),
                          ("f32b", np.float32(0.3)), ("f64", np.float64(-0.6)), ("c64", np.complex64(0.25 - 1j)),
                          ("c128", np.complex128(1.1 + 0.3j)), ("i64", np.int64(3))):
            v = self.leaf("sc", name, val, dict(v=val), abs(complex(val)), {"sc:" + type(val).__name__})
            v.single = False
        ctx.note("pool_sizes", {k: len(v) for k, v in self.pop.items()})

    def check_space_semantics(self):
        """The library's == / is_compatible on all pool space pairs equals the construction key."""
        ctx = self.ctx
        names = sorted(self.sp)
        n = 0
        for a in names:
            for b in names:
                A, Bq = self.sp[a], self.sp[b]
                want = A.key == Bq.key
                try:
                    got = (bool(A.space == Bq.space), bool(A.space.is_compatible(Bq.space)), not bool(A.space != Bq.space))
                except Exception as e:  # noqa: BLE001
                    ctx.violation("space:is_compatible:exception:" + type(e).__name__, "%s vs %s: %s" % (a, b, e), case_id="space:%s:%s" % (a, b))
                    continue
                n += 1
                if got != (want, want, want):
                    size = "equal_size" if A.n == Bq.n else "different_size"
                    ctx.violation("space:is_compatible:%s:%s" % ("accepts_incompatible" if not want else "rejects_compatible", size),
                                  "spaces %s (%s) and %s (%s): ==, is_compatible, not != give %s, construction says %s" % (a, A.key, b, Bq.key, got, want),
                                  case_id="space:%s:%s" % (a, b))
        ctx.count("space_pairs_compared", n)


# ============================================================================================================ type checker
def mism(pairs):
    """pairs: (label, SpaceD, SpaceD). None if all compatible, else '<labels>:<size/grid class>'."""
    bad = [(l, a, b) for l, a, b in pairs if a.key != b.key]
    if not bad:
        return None
    labels = "+".join(sorted(set(l for l, _, _ in bad)))
    if all(a.n == b.n for _, a, b in bad):
        cls = "equal_size_same_grid" if all(a.grid == b.grid for _, a, b in bad) else "equal_size_other_grid"
    else:
        cls = "different_size"
    return labels + ":" + cls


def ck_bop_sum(env, A, B):
    return mism([("domain", A.m["dom"], B.m["dom"]), ("range", A.m["ran"], B.m["ran"]), ("dual", A.m["dual"], B.m["dual"])])


def ck_bop_mul(env, A, B):
    return mism([("range_vs_domain", B.m["ran"], A.m["dom"])])


def ck_bop_apply(env, A, f):
    return mism([("function_space", A.m["dom"], f.m["space"])])


def ck_blk_sum(env, A, B):
    if len(A.m["doms"]) != len(B.m["doms"]) or len(A.m["rans"]) != len(B.m["rans"]):
        return "block_shape"
    pairs = [("domain", a, b) for a, b in zip(A.m["doms"], B.m["doms"])]
    pairs += [("range", a, b) for a, b in zip(A.m["rans"], B.m["rans"])]
    pairs += [("dual", a, b) for a, b in zip(A.m["duals"], B.m["duals"])]
    return mism(pairs)


def ck_blk_mul(env, A, B):
    if len(B.m["rans"]) != len(A.m["doms"]):
        return "block_shape"
    return mism([("range_vs_domain", b, a) for a, b in zip(A.m["doms"], B.m["rans"])])


def ck_blk_apply(env, A, *fs):
    if len(fs) != len(A.m["doms"]):
        return "list_length"
    r = mism([("function_space", a, f.m["space"]) for a, f in zip(A.m["doms"], fs)])
    if r is not None and r.endswith("different_size") and sum(f.m["space"].n for f in fs) == sum(a.n for a in A.m["doms"]):
        r += "_same_total"
    return r


def ck_dop_sum(env, A, B):
    return None if A.m["W"].shape == B.m["W"].shape else "shape"


def ck_dop_mul(env, A, B):
    return None if A.m["W"].shape[1] == B.m["W"].shape[0] else "shape"


def ck_pot_sum(env, P, Q):
    if P.m["ncomp"] != Q.m["ncomp"]:
        return "component_count"
    if P.m["pts"].shape != Q.m["pts"].shape:
        return "points_count"
    if not np.array_equal(P.m["pts"], Q.m["pts"]):
        return "points_differ"
    return mism([("space", P.m["space"], Q.m["space"])])


def ck_pot_apply(env, P, f):
    return mism([("function_space", P.m["space"], f.m["space"])])


def ck_gf_sum(env, f, g):
    return mism([("space", f.m["space"], g.m["space"])])


# ================================================================================================================== model
def sval(s):
    return s.m["v"]


def md_bop_sum(sign):
    def f(env, A, B):
        W = A.m["W"] + B.m["W"] if sign > 0 else A.m["W"] - B.m["W"]
        return dict(W=W, dom=A.m["dom"], ran=A.m["ran"], dual=A.m["dual"]), A.mag + B.mag
    return f


def md_bop_neg(env, A):
    return dict(A.m, W=-A.m["W"]), A.mag


def md_bop_lscale(env, s, A):
    return dict(A.m, W=sval(s) * A.m["W"]), abs(complex(sval(s))) * A.mag


def md_bop_rscale(env, A, s):
    return md_bop_lscale(env, s, A)


def md_bop_mul(env, A, B):
    Mi, ni = env.pinvM(B.m["ran"], B.m["dual"])
    W = A.m["W"] @ (Mi @ B.m["W"])
    return dict(W=W, dom=B.m["dom"], ran=A.m["ran"], dual=A.m["dual"]), A.mag * ni * B.mag


def gf_payload(env, ran, dual, proj, pmag):
    Mi, ni = env.pinvM(ran, dual)
    return dict(c=Mi @ proj, space=ran, dual=dual, proj=proj, pmag=pmag), ni * pmag


def md_bop_apply(env, A, f):
    proj = A.m["W"] @ f.m["c"]
    return gf_payload(env, A.m["ran"], A.m["dual"], proj, A.mag * f.mag)


def md_bop_weak(env, A):
    return dict(W=A.m["W"]), A.mag


def md_bop_strong(env, A):
    Mi, ni = env.pinvM(A.m["ran"], A.m["dual"])
    return dict(W=Mi @ A.m["W"]), ni * A.mag


def md_blk_sum(sign):
    def f(env, A, B):
        W = A.m["W"] + B.m["W"] if sign > 0 else A.m["W"] - B.m["W"]
        return dict(A.m, W=W), A.mag + B.mag
    return f


def md_blk_neg(env, A):
    return dict(A.m, W=-A.m["W"]), A.mag


def md_blk_lscale(env, s, A):
    return dict(A.m, W=sval(s) * A.m["W"]), abs(complex(sval(s))) * A.mag


def md_blk_rscale(env, A, s):
    return md_blk_lscale(env, s, A)


def blockdiag_pinv(env, rans, duals):
    mats = [env.pinvM(r, d) for r, d in zip(rans, duals)]
    nr, nc = sum(r.n for r in rans), sum(d.n for d in duals)
    out = np.zeros((nr, nc))
    i = j = 0
    for (Mi, _), r, d in zip(mats, rans, duals):
        out[i:i + r.n, j:j + d.n] = Mi
        i += r.n
        j += d.n
    return out, max(n for _, n in mats)


def md_blk_mul(env, A, B):
    Di, ni = blockdiag_pinv(env, B.m["rans"], B.m["duals"])
    W = A.m["W"] @ (Di @ B.m["W"])
    return dict(W=W, doms=B.m["doms"], rans=A.m["rans"], duals=A.m["duals"]), A.mag * ni * B.mag


def md_blk_apply(env, A, *fs):
    x = np.concatenate([f.m["c"] for f in fs])
    res = A.m["W"] @ x
    xm = float(np.sqrt(sum(f.mag ** 2 for f in fs)))
    out, pos = [], 0
    mags = []
    for r, d in zip(A.m["rans"], A.m["duals"]):
        pl, mg = gf_payload(env, r, d, res[pos:pos + d.n], A.mag * xm)
        pl["mag"] = mg
        out.append(pl)
        mags.append(mg)
        pos += d.n
    return dict(items=out), max(mags)


def md_blk_weak(env, A):
    return dict(W=A.m["W"]), A.mag


def md_blk_strong(env, A):
    Di, ni = blockdiag_pinv(env, A.m["rans"], A.m["duals"])
    return dict(W=Di @ A.m["W"]), ni * A.mag


def md_gfl_item(i):
    def f(env, L):
        it = L.m["items"][i]
        return {k: v for k, v in it.items() if k != "mag"}, it["mag"]
    return f


def md_dop_sum(sign):
    def f(env, A, B):
        return dict(W=A.m["W"] + B.m["W"] if sign > 0 else A.m["W"] - B.m["W"]), A.mag + B.mag
    return f


def md_dop_neg(env, A):
    return dict(W=-A.m["W"]), A.mag


def md_dop_lscale(env, s, A):
    return dict(W=sval(s) * A.m["W"]), abs(complex(sval(s))) * A.mag


def md_dop_rscale(env, A, s):
    return md_dop_lscale(env, s, A)


def md_dop_mul(env, A, B):
    return dict(W=A.m["W"] @ B.m["W"]), A.mag * B.mag


def md_dop_T(env, A):
    return dict(W=A.m["W"].T.copy()), A.mag


def md_dop_H(env, A):
    return dict(W=A.m["W"].conj().T.copy()), A.mag


def md_pot_sum(sign):
    def f(env, P, Q):
        return dict(P.m, P=P.m["P"] + Q.m["P"] if sign > 0 else P.m["P"] - Q.m["P"]), P.mag + Q.mag
    return f


def md_pot_neg(env, P):
    return dict(P.m, P=-P.m["P"]), P.mag


def md_pot_lscale(env, s, P):
    return dict(P.m, P=sval(s) * P.m["P"]), abs(complex(sval(s))) * P.mag


def md_pot_rscale(env, P, s):
    return md_pot_lscale(env, s, P)


def md_pot_apply(env, P, f):
    r = P.m["P"] @ f.m["c"]
    return dict(v=r.reshape(P.m["ncomp"], -1)), P.mag * f.mag


def md_gf_sum(sign):
    def f(env, a, b):
        c = a.m["c"] + b.m["c"] if sign > 0 else a.m["c"] - b.m["c"]
        if a.m["proj"] is not None and b.m["proj"] is not None and a.m["dual"].key == b.m["dual"].key:
            proj = a.m["proj"] + b.m["proj"] if sign > 0 else a.m["proj"] - b.m["proj"]
            return dict(c=c, space=a.m["space"], dual=a.m["dual"], proj=proj, pmag=a.m["pmag"] + b.m["pmag"]), a.mag + b.mag
        return dict(c=c, space=a.m["space"], dual=None, proj=None, pmag=0.0), a.mag + b.mag
    return f


def md_gf_scale(env, f, alpha):
    a = abs(complex(alpha))
    pl = dict(c=alpha * f.m["c"], space=f.m["space"], dual=f.m["dual"], proj=None if f.m["proj"] is None else alpha * f.m["proj"], pmag=a * f.m["pmag"])
    return pl, a * f.mag


def md_gf_neg(env, f):
    return md_gf_scale(env, f, -1.0)


def md_gf_lscale(env, s, f):
    return md_gf_scale(env, f, sval(s))


def md_gf_rscale(env, f, s):
    return md_gf_scale(env, f, sval(s))


def md_gf_div(env, f, s):
    return md_gf_scale(env, f, 1.0 / sval(s))


def build_ops(env):
    ops = []

    def add(*a, **k):
        ops.append(Op(*a, **k))

    c = "boundary_operator"
    add("bop_add", c, "add", ("bop", "bop"), "bop", lambda A, B: A + B, md_bop_sum(+1), ck_bop_sum)
    add("bop_sub", c, "sub", ("bop", "bop"), "bop", lambda A, B: A - B, md_bop_sum(-1), ck_bop_sum)
    add("bop_neg", c, "neg", ("bop",), "bop", lambda A: -A, md_bop_neg)
    add("bop_lscale", c, "scalar_times", ("sc", "bop"), "bop", lambda s, A: s * A, md_bop_lscale)
    add("bop_rscale", c, "times_scalar", ("bop", "sc"), "bop", lambda A, s: A * s, md_bop_rscale)
    add("bop_mul", c, "product", ("bop", "bop"), "bop", lambda A, B: A * B, md_bop_mul, ck_bop_mul)
    add("bop_matmul", c, "matmul", ("bop", "bop"), "bop", lambda A, B: A @ B, md_bop_mul, ck_bop_mul)
    add("bop_apply", c, "apply", ("bop", "gf"), "gf", lambda A, f: A * f, md_bop_apply, ck_bop_apply)
    add("bop_apply_mm", c, "matmul_apply", ("bop", "gf"), "gf", lambda A, f: A @ f, md_bop_apply, ck_bop_apply)
    add("bop_weak", c, "weak_form", ("bop",), "dop", lambda A: A.weak_form(), md_bop_weak)
    add("bop_strong", c, "strong_form", ("bop",), "dop", lambda A: A.strong_form(), md_bop_strong)
    c = "blocked_operator"
    add("blk_add", c, "add", ("blk", "blk"), "blk", lambda A, B: A + B, md_blk_sum(+1), ck_blk_sum)
    add("blk_sub", c, "sub", ("blk", "blk"), "blk", lambda A, B: A - B, md_blk_sum(-1), ck_blk_sum)
    add("blk_neg", c, "neg", ("blk",), "blk", lambda A: -A, md_blk_neg)
    add("blk_lscale", c, "scalar_times", ("sc", "blk"), "blk", lambda s, A: s * A, md_blk_lscale)
    add("blk_rscale", c, "times_scalar", ("blk", "sc"), "blk", lambda A, s: A * s, md_blk_rscale)
    add("blk_mul", c, "product", ("blk", "blk"), "blk", lambda A, B: A * B, md_blk_mul, ck_blk_mul)
    add("blk_matmul", c, "matmul", ("blk", "blk"), "blk", lambda A, B: A @ B, md_blk_mul, ck_blk_mul)
    add("blk_apply", c, "apply", ("blk", "gf"), "gfl", lambda A, *fs: A * list(fs), md_blk_apply, ck_blk_apply, variadic=True)
    add("blk_apply_mm", c, "matmul_apply", ("blk", "gf"), "gfl", lambda A, *fs: A @ list(fs), md_blk_apply, ck_blk_apply, variadic=True)
    add("blk_weak", c, "weak_form", ("blk",), "dop", lambda A: A.weak_form(), md_blk_weak)
    add("blk_strong", c, "strong_form", ("blk",), "dop", lambda A: A.strong_form(), md_blk_strong)
    add("gfl_item0", "grid_function_list", "item", ("gfl",), "gf", lambda L: L[0], md_gfl_item(0))
    add("gfl_item1", "grid_function_list", "item", ("gfl",), "gf", lambda L: L[1], md_gfl_item(1))
    c = "discrete_operator"
    add("dop_add", c, "add", ("dop", "dop"), "dop", lambda A, B: A + B, md_dop_sum(+1), ck_dop_sum)
    add("dop_sub", c, "sub", ("dop", "dop"), "dop", lambda A, B: A - B, md_dop_sum(-1), ck_dop_sum)
    add("dop_neg", c, "neg", ("dop",), "dop", lambda A: -A, md_dop_neg)
    add("dop_lscale", c, "scalar_times", ("sc", "dop"), "dop", lambda s, A: s * A, md_dop_lscale)
    add("dop_rscale", c, "times_scalar", ("dop", "sc"), "dop", lambda A, s: A * s, md_dop_rscale)
    add("dop_dotscale", c, "dot_scalar", ("dop", "sc"), "dop", lambda A, s: A.dot(s), md_dop_rscale)
    add("dop_mul", c, "product", ("dop", "dop"), "dop", lambda A, B: A * B, md_dop_mul, ck_dop_mul)
    add("dop_matmul", c, "matmul", ("dop", "dop"), "dop", lambda A, B: A @ B, md_dop_mul, ck_dop_mul)
    add("dop_dot", c, "dot", ("dop", "dop"), "dop", lambda A, B: A.dot(B), md_dop_mul, ck_dop_mul)
    add("dop_T", c, "transpose", ("dop",), "dop", lambda A: A.T, md_dop_T)
    add("dop_transpose", c, "transpose", ("dop",), "dop", lambda A: A.transpose(), md_dop_T)
    add("dop_H", c, "adjoint", ("dop",), "dop", lambda A: A.H, md_dop_H)
    add("dop_adjoint", c, "adjoint", ("dop",), "dop", lambda A: A.adjoint(), md_dop_H)
    c = "potential_operator"
    add("pot_add", c, "add", ("pot", "pot"), "pot", lambda P, Q: P + Q, md_pot_sum(+1), ck_pot_sum)
    add("pot_sub", c, "sub", ("pot", "pot"), "pot", lambda P, Q: P - Q, md_pot_sum(-1), ck_pot_sum)
    add("pot_neg", c, "neg", ("pot",), "pot", lambda P: -P, md_pot_neg)
    add("pot_lscale", c, "scalar_times", ("sc", "pot"), "pot", lambda s, P: s * P, md_pot_lscale)
    add("pot_rscale", c, "times_scalar", ("pot", "sc"), "pot", lambda P, s: P * s, md_pot_rscale)
    add("pot_apply", c, "apply", ("pot", "gf"), "arr", lambda P, f: P * f, md_pot_apply, ck_pot_apply)
    add("pot_apply_mm", c, "matmul_apply", ("pot", "gf"), "arr", lambda P, f: P @ f, md_pot_apply, ck_pot_apply)
    add("pot_evaluate", c, "evaluate", ("pot", "gf"), "arr", lambda P, f: P.evaluate(f), md_pot_apply, ck_pot_apply)
    c = "grid_function"
    add("gf_add", c, "add", ("gf", "gf"), "gf", lambda f, g: f + g, md_gf_sum(+1), ck_gf_sum)
    add("gf_sub", c, "sub", ("gf", "gf"), "gf", lambda f, g: f - g, md_gf_sum(-1), ck_gf_sum)
    add("gf_neg", c, "neg", ("gf",), "gf", lambda f: -f, md_gf_neg)
    add("gf_lscale", c, "scalar_times", ("sc", "gf"), "gf", lambda s, f: s * f, md_gf_lscale)
    add("gf_rscale", c, "times_scalar", ("gf", "sc"), "gf", lambda f, s: f * s, md_gf_rscale)
    add("gf_div", c, "divide_by_scalar", ("gf", "sc"), "gf", lambda f, s: f / s, md_gf_div)
    env.ops = {o.name: o for o in ops}
    return env.ops


# ============================================================================================================= execution
class Failure(Exception):
    def __init__(self, symptom, message):
        super().__init__(message)
        self.symptom, self.message = symptom, message


def result_single(kind, m):
    for key in ("W", "c", "P", "v"):
        if key in m and isinstance(m[key], np.ndarray):
            return is_single(m[key].dtype)
    if kind == "gfl":
        return any(is_single(it["c"].dtype) for it in m["items"])
    return False


def apply_op(env, op, args):
    """Apply `op` in the library and in the model. Raises whatever the library raises."""
    libs = [a.get() for a in args]
    dual_ops = sum(1 for a, l in zip(args, libs) if a.kind == "gf" and getattr(l, "representation", None) == "dual")
    lib = op.lib(*libs)
    m, mag = op.model(env, *args)
    depth = 1 + max(a.depth for a in args)
    expr = op.name + "(" + ",".join(a.expr for a in args) + ")"
    single = any(a.single for a in args) or result_single(op.out, m)
    feat = set()
    for a in args:
        feat |= a.feat
    if dual_ops:
        feat.add("dual_operand")
    v = Val(op.out, lib, m, mag, depth, expr, single, feat)
    return v, libs, dual_ops


def tol_of(v):
    return TOL_SINGLE if v.single else TOL


class Observer:
    """Extracts numbers from a library result and compares them with the model value."""

    def __init__(self, env, v, rng):
        self.env, self.v, self.rng = env, v, rng
        self.api = env.api

    def cmp(self, what, got, want, mag, dtype_check=True, shape_check=True):
        got = np.asarray(got)
        want = np.asarray(want)
        if shape_check and got.shape != want.shape:
            raise Failure(what + ":shape", "%s: shape %s, model %s" % (what, got.shape, want.shape))
        if got.size != want.size:
            raise Failure(what + ":shape", "%s: size %s, model %s" % (what, got.shape, want.shape))
        if dtype_check and not dtype_ok(got.dtype, want, single=self.v.single):
            raise Failure(what + ":dtype", "%s: dtype %s, NumPy promotion of the operands gives %s" % (what, got.dtype, want.dtype))
        d = frob(got.reshape(want.shape) - want)
        scale = max(float(mag), 1e-300)
        r = d / scale
        if np.isfinite(r):
            self.env.worst = max(self.env.worst, r if not self.v.single else 0.0)
        if not np.isfinite(r) or r > tol_of(self.v):
            raise Failure(what + ":value", "%s differs from the dense model: |lib-model|_F = %.3e, magnitude bound %.3e, ratio %.3e > %.1e (|model|_F = %.3e)"
                          % (what, d, scale, r, tol_of(self.v), frob(want)))

    def spaces(self, what, got_space, want):
        d = self.env.sd(got_space)
        if d.key != want.key:
            raise Failure(what + ":spaces", "%s is %s %s, model says %s %s" % (what, d.name, d.key, want.name, want.key))

    def step(self, name, fn):
        try:
            return fn()
        except (Failure, ModelDomainError, NotImplementedError):
            raise
        except Exception as e:  # noqa: BLE001
            raise Failure(name + ":exception:" + type(e).__name__, "%s raised %s: %s" % (name, type(e).__name__, e)) from e

    def rvec(self, n, cplx=None, cols=None):
        cplx = bool(self.rng.integers(2)) if cplx is None else cplx
        shape = (n,) if cols is None else (n, cols)
        x = self.rng.standard_normal(shape)
        if cplx:
            x = x + 1j * self.rng.standard_normal(shape)
        return x

    # ------------------------------------------------------------------------------------------------ per kind
    def run(self):
        getattr(self, "obs_" + self.v.kind)()

    def obs_bop(self):
        v, lib, m = self.v, self.v.lib, self.v.m
        self.step("domain", lambda: self.spaces("domain", lib.domain, m["dom"]))
        self.step("range", lambda: self.spaces("range", lib.range, m["ran"]))
        self.step("dual_to_range", lambda: self.spaces("dual_to_range", lib.dual_to_range, m["dual"]))
        wf = self.step("weak_form", lambda: lib.weak_form())
        dense = self.step("weak_form.to_dense", lambda: np.asarray(wf.to_dense()))
        self.cmp("weak_form", dense, m["W"], v.mag)
        if not dtype_ok(wf.dtype, m["W"], single=self.v.single):
            raise Failure("weak_form:dtype", "declared dtype of the weak form %s, NumPy promotion gives %s" % (wf.dtype, m["W"].dtype))
        if self.rng.random() < 0.5:
            x = self.rvec(m["W"].shape[1])
            y = self.step("weak_form.matvec", lambda: wf @ x)
            self.cmp("weak_form.matvec", y, m["W"] @ x, v.mag * frob(x))
        if self.rng.random() < 0.4:
            Mi, ni = self.env.pinvM(m["ran"], m["dual"])
            sf = self.step("strong_form", lambda: np.asarray(lib.strong_form().to_dense()))
            self.cmp("strong_form", sf, Mi @ m["W"], v.mag * ni)

    def obs_blk(self):
        v, lib, m = self.v, self.v.lib, self.v.m
        for what, attr, key in (("domain_spaces", "domain_spaces", "doms"), ("range_spaces", "range_spaces", "rans"), ("dual_to_range_spaces", "dual_to_range_spaces", "duals")):
            got = self.step(what, lambda: list(getattr(lib, attr)))
            if len(got) != len(m[key]):
                raise Failure(what + ":spaces", "%s has %d entries, model %d" % (what, len(got), len(m[key])))
            for g, w in zip(got, m[key]):
                self.spaces(what, g, w)
        wf = self.step("weak_form", lambda: lib.weak_form())
        dense = self.step("weak_form.to_dense", lambda: np.asarray(wf.to_dense()))
        self.cmp("weak_form", dense, m["W"], v.mag)
        if not dtype_ok(wf.dtype, m["W"], single=self.v.single):
            raise Failure("weak_form:dtype", "declared dtype of the weak form %s, NumPy promotion gives %s" % (wf.dtype, m["W"].dtype))
        if self.rng.random() < 0.5:
            x = self.rvec(m["W"].shape[1])
            y = self.step("weak_form.matvec", lambda: wf @ x)
            self.cmp("weak_form.matvec", y, m["W"] @ x, v.mag * frob(x))
        if self.rng.random() < 0.4:
            Di, ni = blockdiag_pinv(self.env, m["rans"], m["duals"])
            sf = self.step("strong_form", lambda: np.asarray(lib.strong_form().to_dense()))
            self.cmp("strong_form", sf, Di @ m["W"], v.mag * ni)

    def obs_dop(self):
        v, lib, m = self.v, self.v.lib, self.v.m
        W = m["W"]
        env = self.env
        shape = self.step("shape", lambda: tuple(int(s) for s in lib.shape))
        if shape != W.shape:
            raise Failure("shape", "operator shape %s, model %s" % (shape, W.shape))
        dt = self.step("dtype", lambda: np.dtype(lib.dtype))
        if not dtype_ok(dt, W, single=self.v.single):
            raise Failure("dtype", "declared dtype %s, NumPy promotion of the operands gives %s" % (dt, W.dtype))
        n = W.shape[1]
        dense = None
        if hasattr(lib, "to_dense"):
            dense = self.step("to_dense", lambda: np.asarray(lib.to_dense()))
            self.cmp("to_dense", dense, W, v.mag)
        # columns by matvec
        for j in self.rng.choice(n, size=min(2, n), replace=False):
            e = np.zeros(n)
            e[j] = 1.0
            col = self.step("matvec", lambda: lib.matvec(e))
            self.cmp("matvec", col, W[:, j], v.mag, dtype_check=False)
            if dense is not None:
                self.cmp("to_dense_vs_matvec", col, dense[:, j], v.mag, dtype_check=False)
            env.stats["matvec_columns"] += 1
        # products with vectors and matrices through every documented spelling
        forms = [("matmul_vec", lambda x: lib @ x, None), ("mul_vec", lambda x: lib * x, None), ("dot_vec", lambda x: lib.dot(x), None),
                 ("matvec", lambda x: lib.matvec(x), None), ("matmat", lambda x: lib.matmat(x), 3), ("matmul_mat", lambda x: lib @ x, 2),
                 ("dot_mat", lambda x: lib.dot(x), 2), ("matvec_column", lambda x: lib.matvec(x), 1)]
        for i in self.rng.choice(len(forms), size=3, replace=False):
            name, fn, cols = forms[i]
            x = self.rvec(n, cols=cols)
            if self.rng.random() < 0.15:
                x = x.astype(np.complex64 if np.iscomplexobj(x) else np.float32)
            y = self.step(name, lambda: fn(x))
            sub = Val("arr", None, None, 0, single=v.single or is_single(x.dtype))
            keep, self.v = self.v, sub
            try:
                self.cmp(name, y, W @ x, v.mag * frob(x))
            finally:
                self.v = keep
            if cols is not None:
                env.stats["matmat"] += 1
        if not np.iscomplexobj(W):
            x = self.rvec(n, cplx=True)
            y = self.step("complex_vector", lambda: lib @ x)
            yr = self.step("complex_vector", lambda: lib @ x.real)
            yi = self.step("complex_vector", lambda: lib @ x.imag)
            self.cmp("real_operator_complex_vector", y, W @ x, v.mag * frob(x))
            self.cmp("real_operator_complex_vector_by_parts", np.asarray(y), np.asarray(yr) + 1j * np.asarray(yi), v.mag * frob(x))
            env.stats["by_parts"] += 1

    def obs_linop(self):
        """A scipy wrapper (transpose / adjoint of a class without its own): matvec / matmat only."""
        v, lib, W = self.v, self.v.lib, self.v.m["W"]
        shape = tuple(int(s) for s in lib.shape)
        if shape != W.shape:
            raise Failure("shape", "operator shape %s, model %s" % (shape, W.shape))
        x = self.rvec(W.shape[1])
        y = self.step("matvec", lambda: lib.matvec(x))
        self.cmp("matvec", y, W @ x, v.mag * frob(x))
        X = self.rvec(W.shape[1], cols=2)
        Y = self.step("matmat", lambda: lib.matmat(X))
        self.cmp("matmat", Y, W @ X, v.mag * frob(X))

    def obs_pot(self):
        v, lib, m = self.v, self.v.lib, self.v.m
        sp = self.step("space", lambda: lib.space)
        self.spaces("space", sp, m["space"])
        nc = self.step("component_count", lambda: int(lib.component_count))
        if nc != m["ncomp"]:
            raise Failure("component_count:value", "component_count %s, model %s" % (nc, m["ncomp"]))
        pts = self.step("evaluation_points", lambda: np.asarray(lib.evaluation_points))
        if pts.shape != m["pts"].shape or not np.array_equal(pts, m["pts"]):
            raise Failure("evaluation_points:value", "evaluation points differ from those of the operands")
        c = self.rvec(m["space"].n)
        f = self.api.GridFunction(m["space"].space, coefficients=c)
        r = self.step("evaluate", lambda: lib.evaluate(f))
        self.cmp("evaluate", r, (m["P"] @ c).reshape(m["ncomp"], -1), v.mag * frob(c))

    def obs_gf_payload(self, lib, m, mag, prefix=""):
        v = self.v
        sp = self.step(prefix + "space", lambda: lib.space)
        self.spaces(prefix + "space", sp, m["space"])
        rep = self.step(prefix + "representation", lambda: lib.representation)
        checked = False
        own = None   # (own dual space, model of projections(), magnitude) once projections() has been compared
        if rep == "dual":
            dd = self.env.sd(self.step(prefix + "dual_space", lambda: lib.dual_space))
            pr = self.step(prefix + "projections", lambda: np.asarray(lib.projections()))
            if m["proj"] is not None and dd.key == m["dual"].key:
                self.cmp(prefix + "projections", pr, m["proj"], m["pmag"])
                checked = True
                own = (dd, m["proj"], m["pmag"])
            elif dd.n == m["space"].n and dd.grid == m["space"].grid:
                Mm, Mi, ni, nm = self.env.mass(m["space"], dd)
                self.cmp(prefix + "projections", pr, Mm @ m["c"], mag * nm)
                checked = True
                own = (dd, Mm @ m["c"], mag * nm)
        if not checked or self.rng.random() < 0.5:
            c = self.step(prefix + "coefficients", lambda: np.asarray(lib.coefficients))
            self.cmp(prefix + "coefficients", c, m["c"], mag)
            if self.rng.random() < 0.5:
                # projections onto an explicitly named dual space of equal size on the same grid
                cands = [s for s in self.env.sp.values() if s.grid == m["space"].grid and s.n == m["space"].n and s.name not in ("ds1", "ds2")
                         and m["space"].name not in ("ds1", "ds2")]
                if cands:
                    dd = cands[int(self.rng.integers(len(cands)))]
                    Mm, Mi, ni, nm = self.env.mass(m["space"], dd)
                    pr = self.step(prefix + "projections_onto", lambda: np.asarray(lib.projections(dd.space)))
                    self.cmp(prefix + "projections_onto", pr, Mm @ m["c"], mag * nm)
        if own is not None:
            # queries are pure: a function given by its projections still answers projections() identically after it has been
            # asked for its projections onto ANOTHER dual space (and for its coefficients)
            others = [s for s in self.env.sp.values() if s.grid == m["space"].grid and s.n == m["space"].n and s.key != own[0].key
                      and s.name not in ("ds1", "ds2") and m["space"].name not in ("ds1", "ds2")]
            if others:
                ee = others[int(self.rng.integers(len(others)))]
                Mm, Mi, ni, nm = self.env.mass(m["space"], ee)
                pr = self.step(prefix + "projections_onto_other", lambda: np.asarray(lib.projections(ee.space)))
                self.cmp(prefix + "projections_onto_other", pr, Mm @ m["c"], mag * nm)
                pr = self.step(prefix + "projections_after_query", lambda: np.asarray(lib.projections()))
                self.cmp(prefix + "projections_after_query", pr, own[1], own[2])
                pr = self.step(prefix + "projections_own_after_query", lambda: np.asarray(lib.projections(own[0].space)))
                self.cmp(prefix + "projections_own_after_query", pr, own[1], own[2])

    def obs_gf(self):
        self.obs_gf_payload(self.v.lib, self.v.m, self.v.mag)

    def obs_gfl(self):
        lib, m = self.v.lib, self.v.m
        n = self.step("len", lambda: len(lib))
        if n != len(m["items"]):
            raise Failure("len:value", "list of %d grid functions, model %d" % (n, len(m["items"])))
        for i, it in enumerate(m["items"]):
            self.obs_gf_payload(lib[i], it, it["mag"], prefix="item.")

    def obs_arr(self):
        self.cmp("result", self.v.lib, self.v.m["v"], self.v.mag)


def numbers_from(env, kind, r, args):
    """Try to obtain a numeric result from the object returned by an ill-typed combination."""
    def numeric(a):
        a = np.asarray(a)
        return a.size > 0 and a.dtype.kind in "fciu"

    tries = []
    if kind in ("bop", "blk"):
        tries = [lambda: r.weak_form().to_dense(), lambda: r.weak_form() @ np.ones(r.weak_form().shape[1]), lambda: r.strong_form().to_dense()]
    elif kind == "dop":
        tries = [lambda: r.to_dense(), lambda: r @ np.ones(r.shape[1])]
    elif kind == "pot":
        sp = args[0].m["space"]
        tries = [lambda: r.evaluate(env.api.GridFunction(sp.space, coefficients=np.ones(sp.n)))]
    elif kind == "gf":
        tries = [lambda: r.coefficients, lambda: r.projections()]
    elif kind == "gfl":
        tries = [lambda: r[0].coefficients, lambda: r[0].projections()]
    elif kind == "arr":
        tries = [lambda: r]
    for t in tries:
        try:
            if numeric(t()):
                return True
        except Exception:  # noqa: BLE001
            continue
    return False


class Runner:
    def __init__(self, env):
        self.env, self.ctx = env, env.ctx

    def account(self, op, args, libs, typed):
        env = self.env
        left = next((l for a, l in zip(args, libs) if a.kind != "sc"), None)
        key = "%s.%s" % (type(left).__name__, op.opname)
        env.pairs[key] = env.pairs.get(key, 0) + 1
        for a in args:
            if a.kind == "sc":
                t = type(a.m["v"]).__name__
                env.scalar_types[t] = env.scalar_types.get(t, 0) + 1

    def run_well(self, op, args, admit=True):
        """Returns the Val if everything matched, else None."""
        env, ctx = self.env, self.ctx
        expr = op.name + "(" + ",".join(a.expr for a in args) + ")"
        env.stats["programs"] += 1
        env.stats["well"] += 1
        env.try_count[op.name] = env.try_count.get(op.name, 0) + 1
        ctx.case(expr, {"typed": "well", "expr": expr})
        descr = {"expr": expr, "typed": "well", "operand_classes": [type(a.lib).__name__ for a in args]}
        try:
            v, libs, dual_ops = apply_op(env, op, args)
        except ModelDomainError as e:
            ctx.count("outside_domain:singular_mass_matrix")
            ctx.note("outside_domain_example", str(e))
            return None
        except NotImplementedError as e:
            if op.opname in ("transpose", "adjoint"):
                ctx.reject("%s of %s: NotImplementedError %s" % (op.opname, type(args[0].lib).__name__, e))
                ctx.count("rejected:" + op.opname)
                return None
            env.stats["well_failed"] += 1
            ctx.violation("%s:%s:exception:NotImplementedError" % (op.cls, op.opname), "well-typed program %s raised NotImplementedError: %s" % (expr, e), case_id=expr, data=descr)
            return None
        except Exception as e:  # noqa: BLE001
            import traceback

            env.stats["well_failed"] += 1
            ctx.violation("%s:%s:exception:%s" % (op.cls, op.opname, type(e).__name__),
                          "well-typed program %s raised %s: %s\n%s" % (expr, type(e).__name__, e, traceback.format_exc(limit=6)), case_id=expr, data=descr)
            return None
        if v.lib is NotImplemented or (isinstance(v.lib, type) and issubclass(v.lib, BaseException)):
            env.stats["well_failed"] += 1
            ctx.violation("%s:%s:not_implemented" % (op.cls, op.opname), "well-typed program %s returned %r" % (expr, v.lib), case_id=expr, data=descr)
            return None
        obs = Observer(env, v, ctx.rng("obs", expr))
        try:
            if v.kind == "dop" and not hasattr(v.lib, "to_dense"):
                obs.obs_linop()
                admit = False
                ctx.count("scipy_wrapper_results_checked_by_matvec")
            else:
                obs.run()
        except ModelDomainError as e:
            ctx.count("outside_domain:singular_mass_matrix")
            ctx.note("outside_domain_example", str(e))
            return None
        except NotImplementedError as e:
            if op.opname in ("transpose", "adjoint"):
                ctx.reject("%s of %s: NotImplementedError %s" % (op.opname, type(args[0].lib).__name__, e))
                ctx.count("rejected:" + op.opname)
                return None
            env.stats["well_failed"] += 1
            ctx.violation("%s:%s:exception:NotImplementedError" % (op.cls, op.opname), "observing %s raised NotImplementedError: %s" % (expr, e), case_id=expr, data=descr)
            return None
        except Failure as f:
            env.stats["well_failed"] += 1
            descr["result_class"] = type(v.lib).__name__
            ctx.violation("%s:%s:%s" % (op.cls, op.opname, f.symptom), "program %s [%s -> %s]: %s" % (expr, ", ".join(descr["operand_classes"]), descr["result_class"], f.message),
                          case_id=expr, data=descr)
            return None
        self.account(op, args, libs, "well")
        env.well_count[op.name] = env.well_count.get(op.name, 0) + 1
        env.stats["max_depth"] = max(env.stats["max_depth"], v.depth)
        env.depth_hist[v.depth] = env.depth_hist.get(v.depth, 0) + 1
        if dual_ops:
            env.stats["dual_gf_operands"] += 1
            ctx.count("dual_operand:" + op.name)
        nonsc = [a for a in args if a.kind != "sc"]
        if any("twin" in a.feat for a in nonsc) and any("twin" not in a.feat for a in nonsc):
            env.stats["twin_space_programs"] += 1
        if "complex" in v.feat or any(t.startswith("sc:complex") for t in v.feat):
            env.stats["complex_programs"] += 1
        if v.single:
            env.stats["single_programs"] += 1
        if admit and v.kind in env.pop and v.depth < env.maxdepth:
            pop = env.pop[v.kind]
            cap = 160
            nonleaf = [i for i, x in enumerate(pop) if not x.is_leaf]
            if len(nonleaf) >= cap:
                pop.pop(nonleaf[int(ctx.rng("evict", expr).integers(len(nonleaf)))])
            pop.append(v)
        return v

    def run_ill(self, op, args, reason):
        env, ctx = self.env, self.ctx
        expr = op.name + "(" + ",".join(a.expr for a in args) + ")"
        env.stats["programs"] += 1
        env.stats["ill"] += 1
        ctx.case(expr, {"typed": "ill", "expr": expr, "reason": reason})
        key = (op.name, reason)
        env.ill_count[key] = env.ill_count.get(key, 0) + 1
        rk = "%s:%s:%s" % (op.cls, op.opname, reason)
        libs = [a.get() for a in args]
        self.account(op, args, libs, "ill")
        try:
            r = op.lib(*libs)
        except Exception as e:  # noqa: BLE001
            ctx.count("ill_rejected_by:" + type(e).__name__)
            env.ill_seen.setdefault(rk, {}).setdefault("rejected:" + type(e).__name__, 0)
            env.ill_seen[rk]["rejected:" + type(e).__name__] += 1
            return
        how = None
        if r is NotImplemented or (isinstance(r, type) and issubclass(r, BaseException)):
            how = "rejected:returned_" + (r.__name__ if isinstance(r, type) else "NotImplemented")
        elif not numbers_from(env, op.out, r, args):
            how = "rejected:lazily"
        if how is not None:
            ctx.count("ill_" + how.replace(":", "_"))
            env.ill_seen.setdefault(rk, {}).setdefault(how, 0)
            env.ill_seen[rk][how] += 1
            return
        env.stats["ill_accepted"] += 1
        env.ill_seen.setdefault(rk, {}).setdefault("ACCEPTED", 0)
        env.ill_seen[rk]["ACCEPTED"] += 1
        ctx.violation("ill_typed:%s:%s:%s:accepted" % (op.cls, op.opname, reason),
                      "ill-typed program %s (%s; operands %s) returned a %s from which numbers were obtained" % (expr, reason, [type(l).__name__ for l in libs], type(r).__name__),
                      case_id=expr, data={"expr": expr, "typed": "ill", "reason": reason})


# ============================================================================================================== generator
def pick(rng, cands, deep=1.5):
    w = np.array([(1.0 + c.depth) ** deep for c in cands])
    return cands[int(rng.choice(len(cands), p=w / w.sum()))]


def gen_blk_apply(env, op, rng, want_ill, leaves_only=False, reason_wanted=None):
    pool = [v for v in env.pop["blk"] if v.depth < env.maxdepth and (v.is_leaf or not leaves_only)]
    gfs = [v for v in env.pop["gf"] if v.depth < env.maxdepth and (v.is_leaf or not leaves_only)]
    if not pool or not gfs:
        return None
    A = pick(rng, pool)
    fs = []
    for d in A.m["doms"]:
        c = [g for g in gfs if g.m["space"].key == d.key]
        if not c:
            return None
        fs.append(pick(rng, c))
    if not want_ill:
        return [A] + fs, None
    variants = []
    n = len(fs)
    # swap two entries, replace one entry by a function of an incompatible space, drop / add an entry
    for i in range(n):
        for j in range(i + 1, n):
            s = list(fs)
            s[i], s[j] = s[j], s[i]
            variants.append(s)
    for i in range(n):
        for g in gfs:
            if g.m["space"].key != A.m["doms"][i].key and (g.is_leaf or rng.random() < 0.1):
                s = list(fs)
                s[i] = g
                variants.append(s)
    variants.append(fs[:-1] if n > 1 else fs + [fs[0]])
    variants.append(fs + [fs[0]])
    by = {}
    for s in variants:
        r = op.check(env, A, *s)
        if r is not None:
            by.setdefault(r, []).append(s)
    if not by:
        return None
    if reason_wanted is not None:
        if reason_wanted not in by:
            return None
        reason = reason_wanted
    else:
        reason = min(sorted(by), key=lambda r: env.ill_count.get((op.name, r), 0))
    s = by[reason][int(rng.integers(len(by[reason])))]
    return [A] + s, reason


def gen_args(env, op, rng, want_ill):
    if op.variadic:
        return gen_blk_apply(env, op, rng, want_ill)
    first_c = [v for v in env.pop[op.kinds[0]] if v.depth < env.maxdepth]
    if op.name == "gfl_item1":
        first_c = [v for v in first_c if len(v.m["items"]) > 1]
    if not first_c:
        return None
    first = pick(rng, first_c)
    if len(op.kinds) == 1:
        return (None if want_ill else ([first], None))
    cands = [v for v in env.pop[op.kinds[1]] if v.depth < env.maxdepth]
    if op.name == "gf_div":
        cands = [s for s in cands if not is_single(np.asarray(s.m["v"]).dtype)]
    if op.check is None:
        if want_ill or not cands:
            return None
        return [first, pick(rng, cands, 0.0 if op.kinds[1] == "sc" else 1.5)], None
    good, bad = [], {}
    for c in cands:
        r = op.check(env, first, c)
        if r is None:
            good.append(c)
        else:
            bad.setdefault(r, []).append(c)
    if want_ill:
        if not bad:
            return None
        reason = min(sorted(bad), key=lambda r: env.ill_count.get((op.name, r), 0))
        return [first, pick(rng, bad[reason])], reason
    if not good:
        return None
    return [first, pick(rng, good)], None


def systematic_prefix(env, run):
    """One well-typed program per operation and one ill-typed program per (operation, reason) over the pool leaves."""
    ctx = env.ctx
    rng = ctx.rng("prefix")
    for op in env.ops.values():
        if op.variadic:
            for _ in range(6):
                a = gen_blk_apply(env, op, rng, False, leaves_only=True)
                if a:
                    run.run_well(op, a[0])
            reasons = set()
            for _ in range(60):
                b = gen_blk_apply(env, op, rng, True, leaves_only=True)
                if b and b[1] not in reasons:
                    reasons.add(b[1])
                    run.run_ill(op, b[0], b[1])
            continue
        if op.kinds[0] == "gfl":
            continue
        firsts = [v for v in env.pop[op.kinds[0]] if v.is_leaf]
        if len(op.kinds) == 1:
            for f in firsts[:3] if op.kinds[0] != "dop" else firsts:
                run.run_well(op, [f])
            continue
        seconds = [v for v in env.pop[op.kinds[1]] if v.is_leaf]
        if op.check is None:
            # scalar operations: every scalar type once, operands cycling through the leaves
            scal_first = op.kinds[0] == "sc"
            scal = firsts if scal_first else seconds
            others = seconds if scal_first else firsts
            if op.name == "gf_div":
                scal = [s for s in scal if not is_single(np.asarray(s.m["v"]).dtype)]
            for i, s in enumerate(scal):
                o = others[(i * 5) % len(others)]
                run.run_well(op, [s, o] if scal_first else [o, s])
            continue
        seen = set()
        done_well = 0
        for a in firsts:
            for b in seconds:
                r = op.check(env, a, b)
                if r is None:
                    twin = ("twin" in a.feat) != ("twin" in b.feat)
                    dual = "dual_leaf" in a.feat or "dual_leaf" in b.feat
                    if done_well < 2 or (twin and ("twin", op.name) not in seen) or (dual and ("dual", op.name) not in seen):
                        run.run_well(op, [a, b])
                        done_well += 1
                        if twin:
                            seen.add(("twin", op.name))
                        if dual:
                            seen.add(("dual", op.name))
                elif r not in seen:
                    seen.add(r)
                    run.run_ill(op, [a, b], r)


def explore(env, run, nprog):
    ctx = env.ctx
    rng = ctx.rng("explore")
    names = sorted(env.ops)
    attempts = 0
    while env.stats["programs"] < nprog and attempts < 20 * nprog:
        attempts += 1
        if rng.random() < 0.5:
            name = min(names, key=lambda n: (env.try_count.get(n, 0), n))
            if env.try_count.get(name, 0) > 0 and rng.random() < 0.5:
                name = names[int(rng.integers(len(names)))]
        else:
            name = names[int(rng.integers(len(names)))]
        op = env.ops[name]
        want_ill = op.check is not None and rng.random() < 0.22
        g = gen_args(env, op, rng, want_ill)
        if g is None:
            continue
        args, reason = g
        if reason is None:
            run.run_well(op, args)
        else:
            run.run_ill(op, args, reason)


# ================================================================================================================ replay
def parse_expr(s):
    s = s.strip()
    pos = [0]

    def node():
        m = re.match(r"[A-Za-z0-9_:]+", s[pos[0]:])
        if not m:
            raise ValueError("cannot parse %r at %d" % (s, pos[0]))
        name = m.group(0)
        pos[0] += len(name)
        if pos[0] < len(s) and s[pos[0]] == "(":
            pos[0] += 1
            ch = []
            while True:
                ch.append(node())
                if s[pos[0]] == ",":
                    pos[0] += 1
                    continue
                if s[pos[0]] == ")":
                    pos[0] += 1
                    break
                raise ValueError("cannot parse %r at %d" % (s, pos[0]))
            return (name, ch)
        return (name, None)

    t = node()
    if pos[0] != len(s):
        raise ValueError("trailing text in %r" % s)
    return t


def replay(env, run, expr):
    def build(t, top):
        name, ch = t
        if ch is None:
            return env.leaves[name]
        args = [build(c, False) for c in ch]
        op = env.ops[name]
        if not top:
            return apply_op(env, op, args)[0]
        reason = op.check(env, *args) if op.check is not None else None
        if reason is None:
            run.run_well(op, args, admit=False)
        else:
            run.run_ill(op, args, reason)
        return None

    build(parse_expr(expr), True)


# ================================================================================================================== main
WELL_OBLIGATION_OPS = {
    "boundary_operator": ["bop_add", "bop_sub", "bop_neg", "bop_lscale", "bop_rscale", "bop_mul", "bop_matmul", "bop_apply", "bop_apply_mm", "bop_weak", "bop_strong"],
    "blocked_operator": ["blk_add", "blk_sub", "blk_neg", "blk_lscale", "blk_rscale", "blk_mul", "blk_matmul", "blk_apply", "blk_apply_mm", "blk_weak", "blk_strong"],
    "discrete_operator": ["dop_add", "dop_sub", "dop_neg", "dop_lscale", "dop_rscale", "dop_dotscale", "dop_mul", "dop_matmul", "dop_dot", "dop_T", "dop_transpose", "dop_H", "dop_adjoint"],
    "potential_operator": ["pot_add", "pot_sub", "pot_neg", "pot_lscale", "pot_rscale", "pot_apply", "pot_apply_mm", "pot_evaluate"],
    "grid_function": ["gf_add", "gf_sub", "gf_neg", "gf_lscale", "gf_rscale", "gf_div", "gfl_item0", "gfl_item1"],
}
SCALAR_TYPES = ["int", "float", "complex", "float32", "float64", "complex64", "complex128", "int64"]


def main():
    ctx = Ctx("C14")
    ctx.rule = ("programs = expression trees (depth <= 4 quick / 6 thorough) over a pool of 24 boundary operators (Laplace V/K, Helmholtz V, sparse identities, zero; "
                "triples over P1/DP0 on an icosahedron (20 elements), a copy of that grid, a tetrahedron where P1 and DP0 have equal DOF counts, two DP0 segment spaces), "
                "12 blocked / generalized blocked operators, 18 discrete operators, 10 potential operators, 24 grid functions (primal, dual, single precision) and 11 scalars; "
                "operations + - unary- scalar* *scalar * @ .dot apply-to-function weak_form strong_form transpose adjoint item; the type checker of the model decides "
                "well-/ill-typedness; deterministic prefix = one well-typed program per operation + one ill-typed program per (operation, reason) over the leaves, "
                "then seeded exploration with coverage balancing. One evaluation = one program run in the library and in the dense model.")
    ctx.assumptions = ["dense weak forms of the elementary pool operators, potential evaluations of unit coefficient vectors and the dense matrix of the sparse identity (mass matrix) are "
                       "taken from the library (decided by C01-C07, C13); everything composed from them is rebuilt with NumPy",
                       "space compatibility = construction key (grid object, kind, degree, segment), compared with the library's == / is_compatible on all pool pairs",
                       "pinv(M) for non-square mass matrices (the library's normal-equation solve for full-rank M)",
                       "tolerance 1e-10 relative to a magnitude bound of the terms (5e-5 when single precision data took part); observed <= 1e-13",
                       "NotImplementedError from transpose/adjoint of discrete operator classes without an own transpose is a deliberate refusal (rejected_by_library)",
                       "division of a grid function by a single precision scalar is not generated (the library forms 1.0/alpha in the scalar's precision; division is not part of the property)"]
    boot.boot()
    import bempp_cl.api as api
    from vlib import meshes as M, ops as O

    env = Env(ctx, api, M, O)
    build_ops(env)
    try:
        env.build_pool()
    except Exception as e:  # noqa: BLE001
        import traceback

        ctx.violation("pool:build:exception:" + type(e).__name__, "building the pool failed: %s\n%s" % (e, traceback.format_exc(limit=8)), case_id="pool")
        ctx.finish()
    ctx.lap("pool")
    run = Runner(env)
    target = ctx.only_case if ctx.only_case is not None else ctx.args.only
    if target is not None:
        if target.startswith("space:") or target == "pool":
            env.check_space_semantics()
        else:
            replay(env, run, target)
        ctx.finish()
    env.check_space_semantics()
    systematic_prefix(env, run)
    ctx.lap("systematic prefix")
    ctx.note("programs_in_prefix", env.stats["programs"])
    nprog = env.stats["programs"] + (1600 if ctx.quick else 16000)
    explore(env, run, nprog)
    ctx.lap("exploration")

    st = env.stats
    ctx.note("programs", int(st["programs"]))
    ctx.note("program_counts", {"total": st["programs"], "well_typed": st["well"], "ill_typed": st["ill"], "well_typed_failed": st["well_failed"], "ill_typed_accepted": st["ill_accepted"]})
    ctx.note("max_depth", st["max_depth"])
    ctx.note("depth_histogram_well_typed", {str(k): v for k, v in sorted(env.depth_hist.items())})
    ctx.note("operand_class_operation_pairs", {"distinct": len(env.pairs), "counts": dict(sorted(env.pairs.items()))})
    ctx.note("well_typed_by_operation", dict(sorted(env.well_count.items())))
    ctx.note("ill_typed_by_operation_and_reason", {k: v for k, v in sorted(env.ill_seen.items())})
    ctx.note("scalar_types_seen", env.scalar_types)
    ctx.note("worst_ratio_to_magnitude_bound_double", env.worst)
    ctx.note("features", {k: st[k] for k in ("dual_gf_operands", "twin_space_programs", "complex_programs", "single_programs", "by_parts", "matvec_columns", "matmat")})

    for cls, names in WELL_OBLIGATION_OPS.items():
        missing = [n for n in names if env.well_count.get(n, 0) == 0]
        ctx.obligation("every operation kind succeeded at least once on class %s" % cls, not missing, {"missing": missing})
    ctx.obligation("every scalar type seen (int, float, complex, np.float32/64, np.complex64/128, np.int64)", all(env.scalar_types.get(t, 0) > 0 for t in SCALAR_TYPES), env.scalar_types)
    ctx.obligation("dual-representation grid functions seen as operands of add, scale, operator application and potential evaluation",
                   all(ctx.counters.get("dual_operand:" + n, 0) > 0 for n in ("gf_add", "gf_lscale", "bop_apply", "blk_apply", "pot_apply")),
                   {k: v for k, v in ctx.counters.items() if k.startswith("dual_operand:")})
    ctx.obligation("compatible-by-hash (distinct space objects) operands seen in well-typed programs", st["twin_space_programs"] > 0, st["twin_space_programs"])
    eq = sorted(k for k in env.ill_seen if "equal_size" in k)
    need = ["boundary_operator:add:", "boundary_operator:product:", "boundary_operator:apply:", "blocked_operator:add:", "blocked_operator:product:", "blocked_operator:apply:",
            "potential_operator:add:", "potential_operator:apply:", "grid_function:add:"]
    ctx.obligation("ill-typed combinations with incompatible spaces of EQUAL size seen for every operand class / binary operation",
                   all(any(k.startswith(n) for k in eq) for n in need), eq)
    ctx.obligation("ill-typed: domain-only, range-only and dual-only mismatch of equal size seen for boundary operator sums",
                   all(any(k.startswith("boundary_operator:add:%s:equal_size" % w) for k in env.ill_seen) for w in ("domain", "range", "dual")))
    ctx.obligation("ill-typed: different sizes, other grid, different evaluation points, block shape and list length seen",
                   all(any(w in k for k in env.ill_seen) for w in ("different_size", "other_grid", "points_differ", "points_count", "block_shape", "list_length", "discrete_operator:add:shape")),
                   sorted(env.ill_seen))
    ctx.obligation("number of programs", st["programs"] >= (300 if ctx.quick else 5000), st["programs"])
    ctx.obligation("maximal depth reached", st["max_depth"] >= env.maxdepth, st["max_depth"])
    ctx.obligation("real discrete operator applied to complex vectors and matmat / matvec columns compared", st["by_parts"] > 0 and st["matmat"] > 0 and st["matvec_columns"] > 0,
                   {k: st[k] for k in ("by_parts", "matmat", "matvec_columns")})
    ctx.finish()


if __name__ == "__main__":
    main()
