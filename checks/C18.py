"""C18 — results depend only on explicit arguments, not on process history.

Workload: seeded random *histories* over the alphabet {set global quadrature / FMM parameters, create operator (dense, sparse,
singular part, FMM; explicit parameter object or None), weak_form, strong_form, evaluate potential, mass_matrix, mutate an
explicit parameter object after construction, clear_fmm_cache, barycentric refinement, create space}, on few grids and few
orders so that caches collide.
Oracle: every observable produced inside a history is compared with the value of the *same configuration computed in
isolation* (new Grid / space / operator objects, the configuration's parameter values set globally before construction,
FMM caches empty; the history's own caches are saved and restored around it), to 1e-12; a sample is recomputed in a fresh
interpreter. Also: weak_form() is weak_form(); single precision agrees with double to 1e-4.
A deviation is classified by the state of the history at that moment (lazy binding of the global parameter object, FMM
evaluators reading the global order, FMM cache key without the order); anything else is an unclassified history dependence.
"""

import copy
import json
import os
import subprocess
import sys

import numpy as np

from vlib import boot
from vlib.verdict import Ctx

ORDERS = [(4, 4), (3, 5), (6, 4)]
OPS = [  # (name, family, op, trial kind, test kind, k, assembler)
    ("lapV_dense", "laplace", "single_layer", "DP0", "DP0", None, "dense"),
    ("lapK_dense", "laplace", "double_layer", "P1", "P1", None, "dense"),
    ("helV_dense", "helmholtz", "single_layer", "P1", "P1", 1.3 + 0.2j, "dense"),
    ("lapV_sing", "laplace", "single_layer", "DP0", "DP0", None, "only_singular_part"),
    ("ident", "sparse", "identity", "P1", "DP0", None, "sparse"),
    ("lapV_fmm", "laplace", "single_layer", "DP0", "DP0", None, "fmm"),
    ("helV_fmm", "helmholtz", "single_layer", "P1", "P1", 1.3 + 0.2j, "fmm"),
    ("lapK_fmm", "laplace", "double_layer", "P1", "P1", None, "fmm"),
    ("lapV_dense_single", "laplace", "single_layer", "DP0", "DP0", None, "dense/single"),   # "<assembler>/<precision>", see vlib.ops.boundary
]
POTS = [("lapSL_pot", "laplace", "single_layer", "DP0", None, "dense"), ("helSL_pot", "helmholtz", "single_layer", "P1", 1.3 + 0.2j, "dense"),
        ("lapSL_pot_fmm", "laplace", "single_layer", "DP0", None, "fmm")]
KA = {"DP0": ("DP", 0), "P1": ("P", 1), "RWG": ("RWG", 0), "SNC": ("SNC", 0)}


def meshes(M):
    rng = np.random.default_rng(4242)
    a = M.distort(M.refine(M.octahedron(), 1), rng, jitter=0.05, strength=0.2)
    b = M.distort(M.cube(), rng, jitter=0.05, strength=0.2)
    return {"octa_r1": a, "cube": b}


def get_globals(api):
    g = api.GLOBAL_PARAMETERS
    return {"regular": g.quadrature.regular, "singular": g.quadrature.singular, "expansion_order": g.fmm.expansion_order, "ncrit": g.fmm.ncrit,
            "near_field": g.fmm.near_field_representation}


def set_globals(api, v):
    g = api.GLOBAL_PARAMETERS
    g.quadrature.regular, g.quadrature.singular = v["regular"], v["singular"]
    g.fmm.expansion_order, g.fmm.ncrit, g.fmm.near_field_representation = v["expansion_order"], v["ncrit"], v["near_field"]


def observe_operator(op, X, form):
    w = op.weak_form() if form == "weak" else op.strong_form()
    return np.asarray(w @ X)


def build_and_observe(api, M, O, mesh, cfg, eff, X, form="weak", explicit=False, precision=None):
    """Build everything anew for one configuration with the parameter values `eff` and observe it."""
    name, fam, op, tk, sk, k, assembler = cfg
    grid = M.to_grid(mesh)
    trial = api.function_space(grid, *KA[tk])
    test = api.function_space(grid, *KA[sk])
    par = None
    if explicit:
        par = api.DefaultParameters()
        par.quadrature.regular, par.quadrature.singular = eff["regular"], eff["singular"]
        par.fmm.expansion_order, par.fmm.ncrit, par.fmm.near_field_representation = eff["expansion_order"], eff["ncrit"], eff["near_field"]
    if fam == "sparse":
        o = O.boundary(api, fam, op, trial, trial, test, parameters=par)
    else:
        o = O.boundary(api, fam, op, trial, test, test, k, parameters=par, assembler=assembler, precision=precision)
    return observe_operator(o, X, form)


def isolated(api, M, O, mesh, cfg, eff, X, form="weak", precision=None):
    """Reference: the configuration's values set globally before construction, parameters=None, empty FMM caches;
    the history's globals and caches are saved and restored."""
    import bempp_cl.api.fmm.fmm_assembler as fa

    saved = get_globals(api)
    c1, c2 = dict(fa._FMM_CACHE), dict(fa._FMM_POTENTIAL_CACHE)
    try:
        set_globals(api, eff)
        fa._FMM_CACHE.clear()
        fa._FMM_POTENTIAL_CACHE.clear()
        return build_and_observe(api, M, O, mesh, cfg, eff, X, form, explicit=False, precision=precision)
    finally:
        set_globals(api, saved)
        fa._FMM_CACHE.clear()
        fa._FMM_CACHE.update(c1)
        fa._FMM_POTENTIAL_CACHE.clear()
        fa._FMM_POTENTIAL_CACHE.update(c2)


def fresh_process_reference(cases):
    """Recompute configurations in a fresh interpreter (one subprocess for the whole sample)."""
    here = os.path.dirname(os.path.dirname(os.path.abspath(__file__)))
    inp = json.dumps(cases)
    env = dict(os.environ)
    env["PYTHONPATH"] = here + os.pathsep + env.get("PYTHONPATH", "")
    p = subprocess.run([sys.executable, "-m", "checks.C18", "--fresh"], input=inp, capture_output=True, text=True, timeout=1500, cwd=here, env=env)
    if p.returncode != 0:
        raise RuntimeError("fresh interpreter failed: %s" % p.stderr[-800:])
    line = [l for l in p.stdout.splitlines() if l.startswith("FRESH-RESULT ")][-1]
    return json.loads(line[len("FRESH-RESULT "):])


def fresh_main():
    boot.boot(stubs=("fake_exafmm",))
    import bempp_cl.api as api
    from vlib import meshes as M, ops as O

    cases = json.loads(sys.stdin.read())
    ms = meshes(M)
    out = []
    for c in cases:
        cfg = tuple(c["cfg"][:5]) + (complex(*c["cfg"][5]) if c["cfg"][5] is not None else None, c["cfg"][6])
        X = np.random.default_rng(c["xseed"]).normal(size=(c["n"], 2))
        set_globals(api, c["eff"])
        v = build_and_observe(api, M, O, ms[c["mesh"]], cfg, c["eff"], X, c["form"], explicit=False)
        out.append({"re": np.real(v).ravel().tolist(), "im": np.imag(v).ravel().tolist()})
    print("FRESH-RESULT " + json.dumps(out))
    sys.stdout.flush()
    os._exit(0)


def main():
    if "--fresh" in sys.argv:
        return fresh_main()
    ctx = Ctx("C18")
    ctx.rule = ("seeded random histories (length <= 8 quick / 25 thorough) over the API alphabet on 2 grids x 3 (regular, singular) order pairs x 8 operator configs + 3 potentials; "
                "every observable is compared with the same configuration computed in isolation. Distinct = distinct (history); non-trivial = history contains >= 1 observable "
                "preceded by a parameter change, cache event or another assembly.")
    ctx.assumptions = ["'the same configuration in isolation' = new objects, the effective parameter values set globally before construction, parameters=None, empty FMM caches",
                       "effective values: the explicit object's values *at construction* if one was passed, else the global values at construction",
                       "FMM far field through vlib/fake_exafmm (exact summation), so FMM results are deterministic and comparable to 1e-12"]
    boot.boot(stubs=("fake_exafmm",))
    import bempp_cl.api as api
    import bempp_cl.api.fmm.fmm_assembler as fa
    from vlib import meshes as M, monitors as mon, ops as O

    rec = mon.LAUNCH.install()
    ms = meshes(M)
    defaults = get_globals(api)
    nhist = 14 if ctx.quick else 150
    hlen = 8 if ctx.quick else 25
    n_obs = n_nontrivial = 0
    fresh_sample = []
    fresh_expected = []
    classes_seen = {}
    worst = 0.0
    iso_cache = {}

    earlier_private = []   # (object, values written to it): private parameter objects stay what they were set to

    def check_private_object(hid, step, g_before, obj, o):
        """Invariant at the event: writing to a private parameter object changes neither the global parameters nor any other
        private object (otherwise a later `parameters=None` operator legitimately bound to the globals would see values no
        global assignment ever set, and the classifier below would take that for the documented lazy binding)."""
        ctx.count("private_parameter_objects_checked")
        if get_globals(api) != g_before:
            ctx.violation("parameters:private_object_aliases_globals", "%s step %d: writing orders %s to a new DefaultParameters() changed the global parameters from %s to %s"
                          % (hid, step, o, g_before, get_globals(api)), hid)
            set_globals(api, g_before)
        for other, vals in earlier_private[-6:]:
            if (other.quadrature.regular, other.quadrature.singular) != vals:
                ctx.violation("parameters:private_objects_alias_each_other", "%s step %d: an earlier private parameter object now reads %s, it was set to %s"
                              % (hid, step, (other.quadrature.regular, other.quadrature.singular), vals), hid)
                break
        earlier_private.append((obj, tuple(o)))

    def iso_key(mname, cfg, eff, form, precision):
        return (mname, cfg[0], tuple(sorted(eff.items())), form, precision)

    for h in range(nhist):
        hid = "hist%d" % h
        if not ctx.want(hid):
            continue
        rng = ctx.rng(hid)
        set_globals(api, defaults)
        held = len(fa._FMM_CACHE) + len(fa._FMM_POTENTIAL_CACHE)
        api.clear_fmm_cache()
        ctx.count("clear_fmm_cache_postconditions")
        ctx.note_max("fmm_interfaces_held_before_a_clear", held)
        if len(fa._FMM_CACHE) + len(fa._FMM_POTENTIAL_CACHE):
            ctx.violation("clear_fmm_cache:interfaces_survive", "%s start: %d FMM interfaces were cached before clear_fmm_cache() and %d are still cached after it" % (hid, held, len(fa._FMM_CACHE) + len(fa._FMM_POTENTIAL_CACHE)), hid)
        grids = {n: M.to_grid(m) for n, m in ms.items()}
        spaces = {}
        handles = []   # dict(op, cfg, mesh, eff (values at construction), explicit (param object or None), constructed_globals, observed)
        trace = []
        fmm_orders_cached = {}  # (mesh, mode/k) -> order of the interface that was first cached
        events = 0

        def space(mname, kind):
            if (mname, kind) not in spaces:
                spaces[(mname, kind)] = api.function_space(grids[mname], *KA[kind])
            return spaces[(mname, kind)]

        with ctx.guard(hid, "history"):
            for step in range(hlen):
                # (mutating an *explicit* parameter object after construction is not among the histories the property quantifies
                # over - it names changes of the global parameters - so that event is not generated)
                ev = rng.choice(["set_global", "create", "create", "observe", "observe", "observe", "potential", "mass", "clear_cache", "bary", "set_global", "algebra"])
                if step == 0 or (ev == "observe" and not handles):
                    ev = "create"   # every history starts with an operator, and an observation never falls into the void
                if ev == "set_global":
                    o = ORDERS[int(rng.integers(len(ORDERS)))]
                    g = get_globals(api)
                    g["regular"], g["singular"] = o
                    if rng.random() < 0.3:
                        g["near_field"] = str(rng.choice(["evaluate", "sparse"]))
                    set_globals(api, g)
                    trace.append(["set_global", g["regular"], g["singular"], g["near_field"]])
                    events += 1
                elif ev == "create":
                    cfg = OPS[int(rng.integers(len(OPS)))]
                    mname = str(rng.choice(sorted(ms)))
                    explicit = None
                    if rng.random() < 0.5:
                        o = ORDERS[int(rng.integers(len(ORDERS)))]
                        g_before = get_globals(api)
                        explicit = api.DefaultParameters()
                        explicit.quadrature.regular, explicit.quadrature.singular = o
                        explicit.fmm.near_field_representation = get_globals(api)["near_field"]
                        check_private_object(hid, step, g_before, explicit, o)
                    name, fam, op, tk, sk, k, assembler = cfg
                    trial, test = space(mname, tk), space(mname, sk)
                    if fam == "sparse":
                        opx = O.boundary(api, fam, op, trial, trial, test, parameters=explicit)
                    else:
                        opx = O.boundary(api, fam, op, trial, test, test, k, parameters=explicit, assembler=assembler)
                    eff = get_globals(api)
                    if explicit is not None:
                        eff = dict(eff, regular=explicit.quadrature.regular, singular=explicit.quadrature.singular)
                    handles.append({"op": opx, "cfg": cfg, "mesh": mname, "eff": eff, "explicit": explicit, "globals_at_construction": get_globals(api), "first": None})
                    trace.append(["create", name, mname, "explicit" if explicit is not None else "None", eff["regular"], eff["singular"]])
                    events += 1
                elif ev == "mutate" and handles:
                    hd = handles[int(rng.integers(len(handles)))]
                    if hd["explicit"] is not None:
                        o = ORDERS[int(rng.integers(len(ORDERS)))]
                        hd["explicit"].quadrature.regular, hd["explicit"].quadrature.singular = o
                        hd["mutated_to"] = o
                        trace.append(["mutate_explicit_parameters", hd["cfg"][0], o[0], o[1]])
                        events += 1
                elif ev == "clear_cache":
                    held = len(fa._FMM_CACHE) + len(fa._FMM_POTENTIAL_CACHE)
                    api.clear_fmm_cache()
                    # post-condition of the event itself: the classifier below attributes stale-interface reuse to the cache key
                    # only while an interface legitimately is in the cache, so a clear that does not clear must not hide there
                    left = len(fa._FMM_CACHE) + len(fa._FMM_POTENTIAL_CACHE)
                    ctx.count("clear_fmm_cache_postconditions")
                    ctx.note_max("fmm_interfaces_held_before_a_clear", held)
                    if left:
                        ctx.violation("clear_fmm_cache:interfaces_survive", "%s step %d: %d FMM interfaces were cached before clear_fmm_cache() and %d are still cached after it" % (hid, step, held, left), hid)
                    fmm_orders_cached.clear()
                    trace.append(["clear_fmm_cache"])
                    events += 1
                elif ev == "bary":
                    mname = str(rng.choice(sorted(ms)))
                    _ = grids[mname].barycentric_refinement
                    trace.append(["barycentric_refinement", mname])
                    events += 1
                elif ev == "mass":
                    mname = str(rng.choice(sorted(ms)))
                    kind = str(rng.choice(["P1", "DP0"]))
                    sp = space(mname, kind)
                    mm = sp.mass_matrix()
                    if sp.mass_matrix() is not mm:
                        ctx.violation("mass_matrix:not_cached_identically", "%s step %d" % (hid, step), hid)
                    cid = "%s:s%d:mass:%s:%s" % (hid, step, mname, kind)
                    X = ctx.rng("X", mm.shape[1]).normal(size=(mm.shape[1], 2))
                    got = np.asarray(mm @ X)
                    g0 = get_globals(api)
                    saved = get_globals(api)
                    # documented: the mass matrix uses the global parameters at the time of its FIRST computation; reference = same values in isolation
                    if (mname, kind) not in iso_cache:
                        iso_cache[(mname, kind)] = {}
                    first = spaces.get(("first_mass", mname, kind))
                    if first is None:
                        spaces[("first_mass", mname, kind)] = g0
                        first = g0
                    keym = (first["regular"],)
                    if keym not in iso_cache[(mname, kind)]:
                        set_globals(api, first)
                        gsp = api.function_space(M.to_grid(ms[mname]), *KA[kind])
                        iso_cache[(mname, kind)][keym] = np.asarray(gsp.mass_matrix() @ X)
                        set_globals(api, saved)
                    dev = O.rel(got, iso_cache[(mname, kind)][keym])
                    n_obs += 1
                    ctx.case(cid, {"history": trace[-6:], "observable": "mass_matrix", "space": kind, "rel_dev": dev})
                    if dev > 1e-12:
                        ctx.violation("history_dependence:mass_matrix", "%s: mass matrix differs from the isolated one by %.3e; trace %s" % (cid, dev, trace[-8:]), cid)
                    trace.append(["mass_matrix", mname, kind])
                elif ev == "potential":
                    pname, fam, op, kind, k, assembler = POTS[int(rng.integers(len(POTS)))]
                    mname = str(rng.choice(sorted(ms)))
                    sp = space(mname, kind)
                    pts = ctx.rng("pts").normal(size=(3, 9)) * 4.0
                    explicit = None
                    if rng.random() < 0.5:
                        o = ORDERS[int(rng.integers(len(ORDERS)))]
                        g_before = get_globals(api)
                        explicit = api.DefaultParameters()
                        explicit.quadrature.regular, explicit.quadrature.singular = o
                        check_private_object(hid, step, g_before, explicit, o)
                    eff = get_globals(api)
                    if explicit is not None:
                        eff = dict(eff, regular=explicit.quadrature.regular)
                    c = ctx.rng("coef", sp.global_dof_count).normal(size=sp.global_dof_count)
                    cid = "%s:s%d:%s:%s" % (hid, step, pname, mname)
                    try:
                        got = np.asarray(O.potential(api, fam, op, sp, pts, k, parameters=explicit, assembler=assembler).evaluate(api.GridFunction(sp, coefficients=c)))
                        err = None
                    except Exception as e:  # noqa: BLE001
                        got, err = None, "%s: %s" % (type(e).__name__, e)
                    saved = get_globals(api)
                    c1, c2 = dict(fa._FMM_CACHE), dict(fa._FMM_POTENTIAL_CACHE)
                    set_globals(api, eff)
                    fa._FMM_POTENTIAL_CACHE.clear()
                    gsp = api.function_space(M.to_grid(ms[mname]), *KA[kind])
                    ref = np.asarray(O.potential(api, fam, op, gsp, pts, k, assembler=assembler).evaluate(api.GridFunction(gsp, coefficients=c)))
                    set_globals(api, saved)
                    fa._FMM_POTENTIAL_CACHE.clear()
                    fa._FMM_POTENTIAL_CACHE.update(c2)
                    n_obs += 1
                    differs_from_global = explicit is not None and explicit.quadrature.regular != saved["regular"]
                    keyp = (mname, pname)
                    cached_other = assembler == "fmm" and keyp in fmm_orders_cached and fmm_orders_cached[keyp] != saved["regular"]
                    if assembler == "fmm" and keyp not in fmm_orders_cached:
                        fmm_orders_cached[keyp] = saved["regular"]
                    dev = O.rel(got, ref) if got is not None and got.shape == ref.shape else np.inf
                    ctx.case(cid, {"history": trace[-6:], "observable": pname, "explicit": explicit is not None, "eff_regular": eff["regular"], "global_regular": saved["regular"], "rel_dev": dev if np.isfinite(dev) else "failed"})
                    if not (dev <= 1e-12):
                        if assembler == "fmm" and differs_from_global:
                            cls = "fmm_potential:explicit_parameters_ignored"
                        elif assembler == "fmm" and cached_other:
                            cls = "fmm_potential:cache_key_omits_quadrature_order"
                        else:
                            cls = "history_dependence:potential:" + assembler
                        classes_seen[cls] = classes_seen.get(cls, 0) + 1
                        ctx.violation(cls, "%s: %s; trace %s" % (cid, err or ("differs from the isolated value by %.3e" % dev), trace[-8:]), cid)
                    trace.append(["potential", pname, mname, "explicit" if explicit is not None else "None"])
                elif ev == "observe" and handles:
                    hi = int(rng.integers(len(handles)))
                    hd = handles[hi]
                    cfg, mname = hd["cfg"], hd["mesh"]
                    name, fam, op, tk, sk, k, assembler = cfg
                    form = "strong" if (rng.random() < 0.25 and assembler in ("dense", "fmm") and tk == sk) else "weak"
                    n = hd["op"].domain.global_dof_count
                    X = ctx.rng("X", n).normal(size=(n, 2))
                    cid = "%s:s%d:%s:%s:%s" % (hid, step, name, mname, form)
                    gnow = get_globals(api)
                    first_time = hd["first"] is None
                    # observe the REAL cache state before the operation: is an FMM interface for the same (grids, mode, wavenumber)
                    # already cached whose point cloud was built for another quadrature order?
                    stale_cached_interface = False
                    if assembler == "fmm" and first_time:
                        from bempp_cl.api.integration.triangle_gauss import get_number_of_quad_points
                        gid = hd["op"].domain.grid.id
                        want_pts = get_number_of_quad_points(hd["eff"]["regular"]) * hd["op"].domain.grid.number_of_elements
                        for key_, iface in list(fa._FMM_CACHE.items()):
                            if key_[0] == gid and key_[1] == hd["op"].dual_to_range.grid.id and key_[2] == fa.get_mode_from_operator_identifier(hd["op"].descriptor.identifier) \
                                    and key_[3] == (None if k is None else complex(k)) and iface.number_of_source_points != want_pts:
                                stale_cached_interface = True
                        hd["stale_cached_interface"] = stale_cached_interface
                    try:
                        got = observe_operator(hd["op"], X, form)
                        err = None
                        if hd["op"].weak_form() is not hd["op"].weak_form():
                            ctx.violation("weak_form:not_the_same_object", "%s: repeated weak_form() calls return different objects" % cid, cid)
                    except Exception as e:  # noqa: BLE001
                        got, err = None, "%s: %s" % (type(e).__name__, e)
                    if first_time:
                        hd["first"] = {"globals": gnow, "step": step}
                    key = iso_key(mname, cfg, hd["eff"], form, None)
                    if key not in iso_cache:
                        iso_cache[key] = isolated(api, M, O, ms[mname], cfg, hd["eff"], X, form)
                    ref = iso_cache[key]
                    dev = O.rel(got, ref) if got is not None and got.shape == ref.shape else np.inf
                    worst = max(worst, dev if np.isfinite(dev) else 0.0)
                    n_obs += 1
                    nontrivial = events > 0
                    n_nontrivial += int(nontrivial)
                    # ---- state of the history relevant for classification
                    g1 = hd["first"]["globals"]
                    lazy = hd["explicit"] is None and (g1["regular"], g1["singular"]) != (hd["globals_at_construction"]["regular"], hd["globals_at_construction"]["singular"])
                    mutated = hd["explicit"] is not None and "mutated_to" in hd and tuple(hd["mutated_to"]) != (hd["eff"]["regular"], hd["eff"]["singular"])
                    mode_key = (mname, fam, k)
                    fmm_explicit_vs_global = assembler == "fmm" and (hd["eff"]["regular"] != g1["regular"])
                    fmm_cached_other = assembler == "fmm" and bool(hd.get("stale_cached_interface"))
                    fmm_nearfield = assembler == "fmm" and g1["near_field"] != hd["eff"]["near_field"]
                    if assembler == "fmm" and first_time and mode_key not in fmm_orders_cached and err is None:
                        fmm_orders_cached[mode_key] = g1["regular"] if hd["explicit"] is None else hd["explicit"].quadrature.regular
                    ctx.case(cid, {"history": trace[-6:], "observable": name, "form": form, "explicit": hd["explicit"] is not None, "eff": [hd["eff"]["regular"], hd["eff"]["singular"]],
                                   "globals_at_first_weak_form": [g1["regular"], g1["singular"]], "rel_dev": dev if np.isfinite(dev) else "failed"})
                    if not (dev <= 1e-12):
                        if mutated:
                            cls = "explicit_parameter_object_mutated_after_construction:" + assembler
                        elif lazy and assembler != "fmm":
                            cls = "lazy_global_binding:" + assembler.split("/")[0]
                        elif assembler == "fmm" and (fmm_explicit_vs_global or lazy):
                            cls = "fmm:evaluators_read_global_quadrature_order"
                        elif fmm_cached_other:
                            cls = "fmm:cache_key_omits_quadrature_order"
                        elif fmm_nearfield:
                            cls = "fmm:near_field_representation_read_globally"
                        else:
                            cls = "history_dependence:" + assembler
                        classes_seen[cls] = classes_seen.get(cls, 0) + 1
                        ctx.violation(cls, "%s: %s; config %s eff=%s explicit=%s; globals at construction %s, at first weak_form %s; trace %s"
                                      % (cid, err or ("differs from the isolated value by %.3e" % dev), name, [hd["eff"]["regular"], hd["eff"]["singular"]], hd["explicit"] is not None,
                                         [hd["globals_at_construction"]["regular"], hd["globals_at_construction"]["singular"]], [g1["regular"], g1["singular"]], trace[-8:]), cid)
                    elif len(fresh_sample) < (3 if ctx.quick else 30) and nontrivial and rng.random() < 0.3:
                        fresh_sample.append({"cfg": list(cfg[:5]) + [[np.real(k), np.imag(k)] if k is not None else None, assembler], "mesh": mname, "eff": hd["eff"], "form": form,
                                             "n": int(n), "xseed": 0})
                        Xf = np.random.default_rng(0).normal(size=(n, 2))
                        fresh_expected.append(observe_operator(hd["op"], Xf, form))
                    hd["matches_isolated"] = bool(dev <= 1e-12)
                    trace.append(["observe", name, mname, form])
                elif ev == "algebra" and [h_ for h_ in handles if h_.get("matches_isolated")]:
                    # derived operators (scalar multiples, negation, difference) are new objects: assembling them yields the
                    # scaled matrix AND leaves the operand what it was (decided by the later observations of the operand)
                    cand = [h_ for h_ in handles if h_.get("matches_isolated")]
                    hd = cand[int(rng.integers(len(cand)))]
                    cfg, mname = hd["cfg"], hd["mesh"]
                    s = float(rng.choice([2.0, -1.0, 0.5, -4.0]))
                    n = hd["op"].domain.global_dof_count
                    X = ctx.rng("X", n).normal(size=(n, 2))
                    cid = "%s:s%d:%s:%s:times%g" % (hid, step, cfg[0], mname, s)
                    derived = (-hd["op"]) if s == -1.0 else (s * hd["op"])
                    got = np.asarray(derived.weak_form() @ X)
                    ref = s * iso_cache[iso_key(mname, cfg, hd["eff"], "weak", None)] if iso_key(mname, cfg, hd["eff"], "weak", None) in iso_cache else None
                    if ref is not None:
                        dev = O.rel(got, ref) if got.shape == ref.shape else np.inf
                        n_obs += 1
                        ctx.case(cid, {"history": trace[-6:], "observable": "%g * %s" % (s, cfg[0]), "rel_dev": dev})
                        if not (dev <= 1e-12):
                            ctx.violation("history_dependence:scalar_multiple:" + cfg[6].split("/")[0], "%s: (%g * op).weak_form() differs from %g times the isolated matrix by %.3e; trace %s"
                                          % (cid, s, s, dev, trace[-8:]), cid)
                    trace.append(["scalar_multiple", cfg[0], mname, s])
                    events += 1
        for mm_, msg in rec.drain():
            ctx.violation(mm_, "%s: %s" % (hid, msg), hid)
    set_globals(api, defaults)
    ctx.lap("histories")

    # ------------------------------------------------------------------ scripted histories: derived operators leave their operands alone
    # (the random histories reach this only sometimes; here every dense configuration, in double and in single precision,
    # goes through: observe, assemble 2*op, -op, op - other, 0.5*op, observe again)
    for cfg in [c for c in OPS if c[6].split("/")[0] == "dense"] + ([("lapK_dense_single", "laplace", "double_layer", "P1", "P1", None, "dense/single")] if not ctx.quick else []):
        cid = "scripted:derived_operators:%s" % cfg[0]
        if not ctx.want(cid):
            continue
        with ctx.guard(cid, "history:scripted"):
            name, fam, op, tk, sk, k, assembler = cfg
            g_ = M.to_grid(ms["cube"])
            trial, test = api.function_space(g_, *KA[tk]), api.function_space(g_, *KA[sk])
            mk = lambda: O.boundary(api, fam, op, trial, test, test, k, assembler=assembler)  # noqa: E731
            a, b = mk(), mk()
            n = trial.global_dof_count
            X = ctx.rng("X", n).normal(size=(n, 2))
            first = np.array(a.weak_form() @ X)
            iso = isolated(api, M, O, ms["cube"], cfg, get_globals(api), X, "weak")
            worst_d = O.rel(first, iso)
            steps = []
            for label, build, factor in (("2*a", lambda: 2.0 * a, 2.0), ("-a", lambda: -a, -1.0), ("a-b", lambda: a - b, 0.0), ("0.5*a", lambda: 0.5 * a, 0.5), ("a+a", lambda: a + a, 2.0)):
                got = np.array(build().weak_form() @ X)
                d_val = float(np.abs(got - factor * iso).max() / max(np.abs(iso).max(), 1e-300))
                again = np.array(a.weak_form() @ X)
                d_op = O.rel(again, iso)
                d_b = O.rel(np.array(b.weak_form() @ X), iso)
                steps.append([label, d_val, d_op, d_b])
                n_obs += 3
                if d_val > (1e-12 if "/single" not in assembler else 1e-6):
                    ctx.violation("history_dependence:derived_operator_value:" + assembler.split("/")[0], "%s: (%s).weak_form() differs from %g x the isolated matrix by %.3e" % (cid, label, factor, d_val), cid)
                if d_op > 1e-12 or d_b > 1e-12:
                    ctx.violation("history_dependence:operand_changed_by_derived_operator:" + assembler.split("/")[0],
                                  "%s: after assembling %s the operands differ from their isolated values by %.3e / %.3e" % (cid, label, d_op, d_b), cid)
                    break
            ctx.case(cid, {"config": name, "first_vs_isolated": worst_d, "steps": steps})
            if worst_d > 1e-12:
                ctx.violation("history_dependence:" + assembler.split("/")[0], "%s: first observation differs from the isolated value by %.3e" % (cid, worst_d), cid)
    # the same space objects, one operator after the other with different explicit (regular, singular) orders: each must be the
    # matrix of ITS orders (anything memoised per space / grid must carry the orders in its key)
    for cfg in [OPS[0], OPS[3]] + ([OPS[1], OPS[2]] if not ctx.quick else []):
        cid = "scripted:orders_on_shared_spaces:%s" % cfg[0]
        if not ctx.want(cid):
            continue
        with ctx.guard(cid, "history:scripted"):
            name, fam, op, tk, sk, k, assembler = cfg
            g_ = M.to_grid(ms["octa_r1"])
            trial, test = api.function_space(g_, *KA[tk]), api.function_space(g_, *KA[sk])
            n = trial.global_dof_count
            X = ctx.rng("X", n).normal(size=(n, 2))
            seq = []
            for o in ((4, 4), (6, 6), (3, 5), (4, 4)):
                Pex = api.DefaultParameters()
                Pex.quadrature.regular, Pex.quadrature.singular = o
                got = np.array(O.boundary(api, fam, op, trial, test, test, k, parameters=Pex, assembler=assembler).weak_form() @ X)
                iso = isolated(api, M, O, ms["octa_r1"], cfg, dict(get_globals(api), regular=o[0], singular=o[1]), X, "weak")
                d_ = O.rel(got, iso)
                seq.append([list(o), d_])
                n_obs += 1
                if d_ > 1e-12:
                    ctx.violation("history_dependence:orders_on_shared_spaces:" + assembler.split("/")[0], "%s: the operator created with explicit orders %s on spaces that earlier carried operators of other orders "
                                  "differs from the isolated matrix by %.3e (sequence so far %s)" % (cid, o, d_, seq), cid)
                    break
            ctx.case(cid, {"config": name, "sequence": seq})
    # an operator with explicit low-order parameters takes its strong form FIRST on a pair of spaces (the mass matrix of the
    # spaces is memoised on first use); a default operator on the same spaces afterwards must be what it is in isolation
    for cfg in [OPS[1]] + ([OPS[2]] if not ctx.quick else []):
        cid = "scripted:strong_form_after_low_order_operator:%s" % cfg[0]
        if not ctx.want(cid):
            continue
        with ctx.guard(cid, "history:scripted"):
            name, fam, op, tk, sk, k, assembler = cfg
            g_ = M.to_grid(ms["octa_r1"])
            trial, test = api.function_space(g_, *KA[tk]), api.function_space(g_, *KA[sk])
            n = trial.global_dof_count
            X = ctx.rng("X", n).normal(size=(n, 2))
            Plow = api.DefaultParameters()
            Plow.quadrature.regular, Plow.quadrature.singular = 1, 4
            first_op = O.boundary(api, fam, op, trial, test, test, k, parameters=Plow, assembler=assembler)
            _ = first_op.strong_form() @ X      # not compared: only its side effects matter here
            later = O.boundary(api, fam, op, trial, test, test, k, assembler=assembler)
            got = np.array(later.strong_form() @ X)
            iso = isolated(api, M, O, ms["octa_r1"], cfg, get_globals(api), X, "strong")
            d_ = O.rel(got, iso)
            n_obs += 1
            ctx.case(cid, {"config": name, "rel_dev_of_the_later_default_operator": d_})
            if not (d_ <= 1e-11):
                ctx.violation("history_dependence:strong_form_after_low_order_operator:" + assembler.split("/")[0],
                              "%s: strong form of a default operator differs from its isolated value by %.3e after an operator with explicit regular order 1 took its strong form on the same spaces" % (cid, d_), cid)
    ctx.lap("scripted_histories")

    # ------------------------------------------------------------------ constructor sweep: explicit parameters reach every assembler object
    # Invariant at a hook: for EVERY public boundary-operator constructor (all families x operators x real / complex / purely
    # imaginary wavenumbers - the latter are forwarded to other constructors) created with an explicit parameter object P,
    # every assembler object reachable from the operator (interface, implementation, singular part, recursively) must hold
    # P's values. A subset is also compared numerically: explicit P under default globals == parameters=None under globals P.
    set_globals(api, defaults)
    gsw = M.to_grid(ms["cube"])
    p1s = api.function_space(gsw, "P", 1)
    dp0s = api.function_space(gsw, "DP", 0)
    rwgs = api.function_space(gsw, "RWG", 0)
    sncs = api.function_space(gsw, "SNC", 0)
    sweep = []
    for fam, ks in (("laplace", [None]), ("helmholtz", [1.3, 0.8 + 0.5j, 0.9j]), ("modified_helmholtz", [0.7])):
        for op in O.SCALAR_OPS:
            for k in ks:
                for asm in ("default_nonlocal", "dense", "only_singular_part", "only_diagonal_part", "fmm"):
                    sweep.append((fam, op, k, asm, p1s, p1s, p1s))
    for op in ("electric_field", "magnetic_field"):
        for k in (1.1, 0.6 + 0.3j):
            for asm in ("default_nonlocal", "only_singular_part", "fmm"):
                sweep.append(("maxwell", op, k, asm, rwgs, rwgs, sncs))
    for op, sp in (("identity", (p1s, p1s, dp0s)), ("laplace_beltrami", (p1s, p1s, p1s)), ("identity", (rwgs, rwgs, sncs))):
        sweep.append(("sparse", op, None, "sparse", sp[0], sp[1], sp[2]))
    nbind = 0

    def reachable_parameter_objects(opx, depth=0):
        out = []
        asm = getattr(opx, "assembler", None)
        if asm is not None:
            out.append(("interface", asm.parameters))
            impl = getattr(asm, "_implementation", None)
            if impl is not None and hasattr(impl, "parameters"):
                out.append(("implementation:" + type(impl).__name__, impl.parameters))
        out.append(("operator", opx.parameters))
        sp_ = getattr(getattr(opx, "descriptor", None), "singular_part", None)
        if sp_ is not None and depth < 3:
            out += [("singular_part." + n, p_) for n, p_ in reachable_parameter_objects(sp_, depth + 1)]
        return out

    for fam, op, k, asm, dom, ran, dual in sweep:
        cid = "ctor:%s.%s:k=%s:%s" % (fam, op, k, asm)
        if not ctx.want(cid):
            continue
        with ctx.guard(cid, "constructor_parameter_binding"):
            Pex = api.DefaultParameters()
            Pex.quadrature.regular, Pex.quadrature.singular = 7, 6
            if fam == "sparse":
                opx = O.boundary(api, fam, op, dom, ran, dual, parameters=Pex)
            else:
                opx = O.boundary(api, fam, op, dom, ran, dual, k, parameters=Pex, assembler=asm)
            bad = [(n, (p_.quadrature.regular, p_.quadrature.singular)) for n, p_ in reachable_parameter_objects(opx)
                   if (p_.quadrature.regular, p_.quadrature.singular) != (7, 6)]
            nbind += 1
            kcls = "none" if k is None else ("real_k" if np.imag(k) == 0 else ("imaginary_k" if np.real(k) == 0 else "complex_k"))
            ctx.case(cid, {"constructor": fam + "." + op, "k": k, "assembler": asm, "objects_checked": len(reachable_parameter_objects(opx)), "not_bound": bad})
            if bad:
                ctx.violation("explicit_parameters_not_bound:%s.%s:%s" % (fam, op, kcls), "%s: created with parameters=(7,6) but %s hold other values" % (cid, bad), cid)
    ctx.note("constructors_checked_for_parameter_binding", nbind)
    # numeric subset (each one costs JIT time): explicit P under default globals vs parameters=None under globals P
    numeric = [("laplace", "double_layer", None, "dense"), ("helmholtz", "adjoint_double_layer", 0.9j, "dense"), ("helmholtz", "single_layer", 0.9j, "dense"),
               ("laplace", "single_layer", None, "only_diagonal_part")]
    if not ctx.quick:
        numeric += [("helmholtz", "double_layer", 0.9j, "dense"), ("helmholtz", "hypersingular", 0.9j, "dense"), ("modified_helmholtz", "hypersingular", 0.7, "dense"),
                    ("laplace", "hypersingular", None, "dense"), ("helmholtz", "hypersingular", 1.3, "dense"), ("maxwell", "magnetic_field", 1.1, "default_nonlocal")]
    for fam, op, k, asm in numeric:
        cid = "ctor_numeric:%s.%s:k=%s" % (fam, op, k)
        if not ctx.want(cid):
            continue
        with ctx.guard(cid, "explicit_vs_global_parameters"):
            dom, ran, dual = (rwgs, rwgs, sncs) if fam == "maxwell" else (p1s, p1s, p1s)
            Pex = api.DefaultParameters()
            Pex.quadrature.regular, Pex.quadrature.singular = 6, 5
            set_globals(api, defaults)
            A_ex = O.dense(O.boundary(api, fam, op, dom, ran, dual, k, parameters=Pex, assembler=asm))
            A_def = O.dense(O.boundary(api, fam, op, dom, ran, dual, k, assembler=asm))
            set_globals(api, dict(defaults, regular=6, singular=5))
            A_gl = O.dense(O.boundary(api, fam, op, dom, ran, dual, k, assembler=asm))
            set_globals(api, defaults)
            dev = O.rel(A_ex, A_gl)
            sens = O.rel(A_def, A_gl)
            kcls = "none" if k is None else ("real_k" if np.imag(k) == 0 else ("imaginary_k" if np.real(k) == 0 else "complex_k"))
            ctx.case(cid, {"constructor": fam + "." + op, "k": k, "explicit_vs_global": dev, "sensitivity_to_orders": sens})
            if dev > 1e-12:
                ctx.violation("explicit_parameters_not_honoured:%s.%s:%s" % (fam, op, kcls), "%s: explicit (6,5) differs from the same values set globally by %.3e (orders change the matrix by %.3e)" % (cid, dev, sens), cid)
    # potential and far-field constructors keep no parameter object (the order is consumed into quadrature points at
    # construction), so binding is decided on values: explicit P under default globals == parameters=None under globals P,
    # for every constructor and every wavenumber class (purely imaginary wavenumbers are forwarded to other constructors).
    psweep = []
    for fam, ks in (("laplace", [None]), ("helmholtz", [1.3, 0.9j] + ([] if ctx.quick else [0.8 + 0.5j])), ("modified_helmholtz", [0.7])):
        for op, sp in (("single_layer", dp0s), ("double_layer", p1s)):
            psweep += [("potential", fam, op, sp, k) for k in ks]
    if not ctx.quick:
        for op in ("electric_field", "magnetic_field"):
            psweep += [("potential", "maxwell", op, rwgs, 1.1), ("far_field", "maxwell", op, rwgs, 1.1)]
        psweep += [("far_field", "helmholtz", "single_layer", dp0s, 1.3), ("far_field", "helmholtz", "double_layer", p1s, 1.3)]
    ppts = ctx.rng("ppts").normal(size=(3, 9))
    ppts = ppts / np.linalg.norm(ppts, axis=0) * 2.7
    for what, fam, op, sp, k in psweep:
        cid = "ctor_numeric:%s.%s.%s:k=%s" % (what, fam, op, k)
        if not ctx.want(cid):
            continue
        with ctx.guard(cid, "explicit_vs_global_parameters:" + what):
            Pex = api.DefaultParameters()
            Pex.quadrature.regular = 7
            gfp = api.GridFunction(sp, coefficients=ctx.rng(cid).normal(size=sp.global_dof_count))
            X = ppts / 2.7 if what == "far_field" else ppts

            def build(par):
                if what == "far_field":
                    return np.asarray(O.far_field(api, fam, op, sp, X, k, parameters=par).evaluate(gfp))
                return np.asarray(O.potential(api, fam, op, sp, X, k, parameters=par).evaluate(gfp))

            set_globals(api, defaults)
            v_ex = build(Pex)
            v_def = build(None)
            set_globals(api, dict(defaults, regular=7))
            v_gl = build(None)
            set_globals(api, defaults)
            dev, sens = O.rel(v_ex, v_gl), O.rel(v_def, v_gl)
            kcls = "none" if k is None else ("real_k" if np.imag(k) == 0 else ("imaginary_k" if np.real(k) == 0 else "complex_k"))
            ctx.case(cid, {"constructor": "%s.%s.%s" % (what, fam, op), "k": k, "explicit_vs_global": dev, "sensitivity_to_order": sens}, nontrivial=sens > 1e-9)
            if dev > 1e-12:
                ctx.violation("explicit_parameters_not_honoured:%s.%s.%s:%s" % (what, fam, op, kcls), "%s: explicit regular order 7 differs from the same value set globally by %.3e (the order changes the values by %.3e)" % (cid, dev, sens), cid)
    ctx.lap("constructor_sweep")

    # ------------------------------------------------------------------ single precision
    if not ctx.worker:
        extra_single = [("lapW_dense", "laplace", "hypersingular", "P1", "P1", None, "dense"), ("mhelKt_dense", "modified_helmholtz", "adjoint_double_layer", "P1", "DP0", 0.7, "dense"),
                        ("maxE_dense", "maxwell", "electric_field", "RWG", "SNC", 1.1, "default_nonlocal"), ("helK_dense", "helmholtz", "double_layer", "P1", "P1", 1.3 + 0.2j, "dense")]
        for cfg in (OPS[0], OPS[1], OPS[2]) + (() if ctx.quick else tuple(extra_single)):
            cid = "single_precision:%s" % cfg[0]
            if not ctx.want(cid):
                continue
            with ctx.guard(cid, "single_precision"):
                n = api.function_space(M.to_grid(ms["cube"]), *KA[cfg[3]]).global_dof_count
                X = ctx.rng("X", n).normal(size=(n, 2))
                a = build_and_observe(api, M, O, ms["cube"], cfg, defaults, X, precision="double")
                b = build_and_observe(api, M, O, ms["cube"], cfg, defaults, X, precision="single")
                dev = O.rel(a, b)
                ctx.case(cid, {"config": cfg[0], "rel_dev": dev})
                if not (dev <= 1e-4):
                    ctx.violation("single_precision:differs_from_double", "%s: %.3e" % (cid, dev), cid)
        # potentials in single precision
        spts = ctx.rng("spts").normal(size=(3, 11))
        spts = spts / np.linalg.norm(spts, axis=0) * 3.1
        gsp_ = M.to_grid(ms["cube"])
        for fam, op, kind, k in [("laplace", "single_layer", "DP0", None), ("helmholtz", "double_layer", "P1", 1.3 + 0.2j)] + ([] if ctx.quick else [("modified_helmholtz", "single_layer", "P1", 0.7), ("laplace", "double_layer", "P1", None)]):
            cid = "single_precision:potential.%s.%s" % (fam, op)
            if not ctx.want(cid):
                continue
            with ctx.guard(cid, "single_precision:potential"):
                sp_ = api.function_space(gsp_, *KA[kind])
                gf_ = api.GridFunction(sp_, coefficients=ctx.rng(cid).normal(size=sp_.global_dof_count))
                a = np.asarray(O.potential(api, fam, op, sp_, spts, k, precision="double").evaluate(gf_))
                b = np.asarray(O.potential(api, fam, op, sp_, spts, k, precision="single").evaluate(gf_))
                dev = O.rel(a, b)
                ctx.case(cid, {"potential": fam + "." + op, "rel_dev": dev, "single_dtype": str(b.dtype)})
                if not (dev <= 1e-4):
                    ctx.violation("single_precision:potential:differs_from_double", "%s: %.3e" % (cid, dev), cid)
        ctx.lap("single_precision")

    # ------------------------------------------------------------------ fresh interpreter sample
    if fresh_sample and ctx.only_case is None:
        with ctx.guard("fresh_interpreter", "fresh_interpreter"):
            res = fresh_process_reference(fresh_sample)
            for c, exp_, r in zip(fresh_sample, fresh_expected, res):
                v = np.array(r["re"]) + 1j * np.array(r["im"])
                dev = O.rel(np.asarray(exp_).ravel(), v if np.iscomplexobj(exp_) else v.real)
                ctx.count("fresh_interpreter_comparisons")
                if dev > 1e-12:
                    ctx.violation("history_dependence:vs_fresh_interpreter:" + c["cfg"][6], "config %s on %s differs from a fresh interpreter by %.3e" % (c["cfg"][0], c["mesh"], dev), "fresh_interpreter")
        ctx.lap("fresh_interpreter")
    ctx.note("observables", n_obs)
    ctx.note("observables_after_a_state_change", n_nontrivial)
    ctx.note("worst_rel_dev_held_cases", worst)
    ctx.note("violation_classes", classes_seen)
    partial = ctx.only_case is not None or bool(ctx.args.only)
    ctx.obligation("at least 25 observables were compared with isolated values", partial or n_obs >= 25, n_obs)
    ctx.finish()


if __name__ == "__main__":
    main()
