"""C11 — grid topology and geometry data are complete and consistent.

Monitor: full invariant walker (vlib.monitors.grid_problems) run on every Grid the workload constructs
(also installed as a post-condition of Grid.__init__, so grids built internally by refine(),
barycentric_refinement, union, grid_from_segments are walked too), against a brute-force model.
"""

import itertools

import numpy as np

from vlib import boot
from vlib.verdict import Ctx


def main():
    ctx = Ctx("C11")
    ctx.rule = ("every Grid constructed is walked against an O(N^2)-style brute-force topology/geometry model; workload = exhaustive "
                "sub-complex sweep of tetrahedron/octahedron/2x2 screen + mesh families under random relabelling, dtype and memory-order "
                "variation + random soups + derived grids (refine, barycentric, union, segments). Distinct = distinct (vertex array, element array, "
                "domain array) hash; non-trivial = at least 2 elements.")
    ctx.assumptions = ["brute-force reference in vlib/refmodel.py and vlib/monitors.py is correct (small, reviewed, exercised by mutants)",
                       "geometry tolerances 1e-12 relative (1e-9 for the inverse-transposed Jacobian, 1e-10 for circumdiameters)"]
    boot.boot()
    import bempp_cl.api as api
    from bempp_cl.api.grid.grid import Grid, union, grid_from_segments, barycentric_refinement
    from vlib import meshes as M, monitors as mon, refmodel as R

    hooks = mon.HOOKS.install()
    walked = {"n": 0}
    seen_hash = set()

    def walk(grid, cid, mesh=None, what="grid"):
        """Full walker + drain of constructor post-conditions."""
        src = (mesh.V, mesh.E, mesh.D) if mesh is not None else (None, None, None)
        probs = mon.grid_problems(grid, *src)
        walked["n"] += 1
        for m, s in probs:
            ctx.violation(m, "%s [%s]: %s" % (what, cid, s), cid,
                          data={"V": np.asarray(grid.vertices), "E": np.asarray(grid.elements), "D": np.asarray(grid.domain_indices)})
        for origin, m, s in hooks.drain():
            ctx.violation(m, "post-condition of %s [%s]: %s" % (origin, cid, s), cid)
        return not probs

    def build(mesh, cid, dtype_v=None, dtype_e=None, order=None, descr=None):
        V = mesh.V if dtype_v is None else mesh.V.astype(dtype_v)
        E = mesh.E if dtype_e is None else mesh.E.astype(dtype_e)
        if order == "C":
            V, E = np.ascontiguousarray(V), np.ascontiguousarray(E)
        elif order == "F":
            V, E = np.asfortranarray(V), np.asfortranarray(E)
        elif order == "strided":
            Vb = np.zeros((3, 2 * V.shape[1]), dtype=V.dtype)
            Vb[:, ::2] = V
            V = Vb[:, ::2]
        D = mesh.D.astype("uint32")
        g = Grid(V, E, D)
        src = M.Mesh(np.asarray(V, dtype=np.float64), E, D)
        d = descr or mesh.describe()
        import hashlib
        h = hashlib.sha1(src.V.tobytes() + src.E.tobytes() + src.D.tobytes()).hexdigest()
        ctx.case(cid, dict(d, hash=h[:10], dtype_v=str(V.dtype), dtype_e=str(E.dtype), order=order), nontrivial=mesh.ne >= 2)
        walk(g, cid, src)
        return g

    # ------------------------------------------------------------ 1. exhaustive sub-complex sweep
    bases = [M.tetrahedron(), M.octahedron(), M.screen(2)]
    n_sub = 0
    for base in bases:
        rng = ctx.rng("sub", base.name)
        basej = M.distort(base, rng)
        for comb in M.all_subcomplexes(basej):
            cid = "sub:%s:%s" % (base.name, "".join(str(c) for c in comb))
            if not ctx.want(cid):
                continue
            sub = M.sub_mesh(basej, comb, name="%s[%s]" % (base.name, ",".join(map(str, comb))))
            with ctx.guard(cid, "grid:constructor"):
                build(sub, cid)
                n_sub += 1
    ctx.note("subcomplexes_walked", n_sub)
    ctx.obligation("exhaustive sub-complex sweep complete (15 + 255 + 255)", ctx.only_case is not None or ctx.args.only or n_sub == 525, n_sub)

    # ------------------------------------------------------------ 2. mesh families x relabelling x dtype x order
    fam = M.closed_pool("thorough") + M.open_pool("thorough") + [M.multitrace_cubes(), M.cube(face_domains=True)]
    nrel = 2 if ctx.quick else 12
    dtypes_e = ["int64", "int32", "uint32", "uint64"]
    dtypes_v = ["float64", "float32"]
    orders = [None, "C", "F", "strided"]
    kinds = set()
    for mi, base in enumerate(fam):
        for r in range(nrel):
            cid = "fam:%s:%d" % (base.name, r)
            if not ctx.want(cid):
                continue
            rng = ctx.rng("fam", base.name, r)
            m = M.distort(base, rng) if r else base.copy()
            if r:
                m = M.permute_vertices(m, rng.permutation(m.nv))
                m = M.permute_elements(m, rng.permutation(m.ne))
                m = M.rotate_local(m, rng.integers(0, 3, size=m.ne))
                if r % 3 == 2:
                    m = M.flip_orientation(m, rng.random(m.ne) < 0.5)
                if r % 2 == 0:
                    m = M.assign_domains(m, rng, ndom=int(rng.integers(2, 5)), values=rng.choice(1000, size=4, replace=False))
                if r % 2 == 1:
                    # units: the same surface in micrometres / kilometres (geometry is homogeneous: normals stay unit, areas scale with s^2)
                    m = M.scale(m, [1e-6, 1e-4, 1e3, 1e6][(mi + r // 2) % 4])
                if r % 4 == 3:
                    # unreferenced vertices at the end and in the middle
                    extra = rng.normal(size=(3, 2))
                    m = M.Mesh(np.hstack([m.V, extra]), m.E, m.D, m.name + "|unref")
            dv = dtypes_v[(mi + r) % 2]
            de = dtypes_e[(mi + r) % 4]
            od = orders[(mi + 2 * r) % 4]
            with ctx.guard(cid, "grid:constructor"):
                if dv == "float32":
                    m = M.Mesh(m.V.astype("float32").astype("float64"), m.E, m.D, m.name)
                g = build(m, cid, dv, de, od)
                kinds.add(("closed" if m.is_closed_manifold() else "open", max(m.edge_counts().values())))
                _derived(ctx, api, g, m, cid, walk, rng, R, M, union, grid_from_segments)
    ctx.note("family_kinds_seen", sorted(kinds))

    # ------------------------------------------------------------ 3. random soups
    nsoup = 40 if ctx.quick else 1500
    for s in range(nsoup):
        cid = "soup:%d" % s
        if not ctx.want(cid):
            continue
        rng = ctx.rng("soup", s)
        nv = int(rng.integers(4, 11))
        ne = int(rng.integers(1, 14))
        ne = min(ne, nv * (nv - 1) * (nv - 2) // 6)
        tris = set()
        while len(tris) < ne:
            t = tuple(int(x) for x in rng.choice(nv, size=3, replace=False))
            # a vertex set may appear at most once (no duplicate elements): triangulated surfaces do not repeat a face
            if not any(set(t) == set(u) for u in tris):
                tris.add(t)
        tris = list(tris)
        rng.shuffle(tris)
        m = M.Mesh(rng.normal(size=(3, nv)), np.array(tris).T, rng.integers(0, 3, size=ne), name="soup%d" % s)
        with ctx.guard(cid, "grid:constructor"):
            build(m, cid, descr={"name": m.name, "nv": nv, "ne": ne, "max_edge_valence": max(m.edge_counts().values())})

    # ------------------------------------------------------------ 4. shipped meshes (thorough)
    if not ctx.quick:
        import os
        import glob
        for path in sorted(glob.glob(os.path.join(boot.REPO, "test", "data", "*.msh"))):
            cid = "file:%s" % os.path.basename(path)
            if not ctx.want(cid):
                continue
            with ctx.guard(cid, "grid:import"):
                g = api.import_grid(path)
                ctx.case(cid, {"file": os.path.basename(path), "ne": g.number_of_elements})
                if g.number_of_elements <= 4000:
                    walk(g, cid)

    ctx.note("grids_walked_fully", walked["n"])
    ctx.note("grid_constructor_postconditions_evaluated", hooks.grid_calls)
    ctx.obligation("constructor post-condition evaluated at least once per case", hooks.grid_calls >= ctx.evaluations or ctx.only_case is not None, hooks.grid_calls)
    ctx.obligation("closed, open and non-manifold inputs seen", ctx.only_case is not None or ctx.args.only or
                   {("closed", 2), ("open", 2), ("open", 3)} <= kinds, sorted(kinds))
    ctx.exhaustive = False
    ctx.note("exhaustive_part", "all 525 non-empty sub-complexes of tetrahedron, octahedron and the 2x2 screen")
    ctx.finish()


def _children_report(R, parent_V, parent_E, child_V, child_E):
    """For each child element find the parent it lies in (geometry only). Returns parent index array (-1 if none)
    and max out-of-plane / out-of-triangle deviation."""
    npar = parent_E.shape[1]
    P0 = parent_V[:, parent_E[0]].T
    A = parent_V[:, parent_E[1]].T - P0
    B = parent_V[:, parent_E[2]].T - P0
    N = np.cross(A, B)
    Nn = N / np.linalg.norm(N, axis=1)[:, None]
    scale = np.sqrt(np.linalg.norm(N, axis=1))
    cen = (child_V[:, child_E[0]] + child_V[:, child_E[1]] + child_V[:, child_E[2]]).T / 3
    parent = -np.ones(child_E.shape[1], dtype=int)
    for c in range(child_E.shape[1]):
        d = cen[c] - P0
        # barycentric coordinates wrt every parent
        aa = np.einsum("ij,ij->i", A, A)
        ab = np.einsum("ij,ij->i", A, B)
        bb = np.einsum("ij,ij->i", B, B)
        da = np.einsum("ij,ij->i", d, A)
        db = np.einsum("ij,ij->i", d, B)
        det = aa * bb - ab * ab
        u = (bb * da - ab * db) / det
        v = (aa * db - ab * da) / det
        hgt = np.abs(np.einsum("ij,ij->i", d, Nn)) / scale
        ok = (u > 1e-9) & (v > 1e-9) & (u + v < 1 - 1e-9) & (hgt < 1e-9)
        idx = np.flatnonzero(ok)
        if len(idx) >= 1:
            parent[c] = idx[0]
    return parent


def _check_children(ctx, cid, what, nchild, R, g, child):
    pV, pE = np.asarray(g.vertices), np.asarray(g.elements).astype(int)
    cV, cE = np.asarray(child.vertices), np.asarray(child.elements).astype(int)
    par = _children_report(R, pV, pE, cV, cE)
    if (par < 0).any():
        ctx.violation("grid:%s:child_outside_parent" % what, "%d child elements lie in no parent element" % (par < 0).sum(), cid)
        return
    cnt = np.bincount(par, minlength=pE.shape[1])
    if not np.all(cnt == nchild):
        ctx.violation("grid:%s:child_count" % what, "children per parent: %s" % sorted(set(cnt.tolist())), cid)
    carea = np.asarray(child.volumes)
    parea = np.asarray(g.volumes)
    summed = np.bincount(par, weights=carea, minlength=pE.shape[1])
    if not np.all(np.abs(summed - parea) <= 1e-12 * parea.max() * 16):
        ctx.violation("grid:%s:area" % what, "children areas do not sum to the parent area (max dev %.2e)" % np.abs(summed - parea).max(), cid)
    if abs(carea.sum() - parea.sum()) > 1e-11 * parea.sum():
        ctx.violation("grid:%s:total_area" % what, "%r vs %r" % (carea.sum(), parea.sum()), cid)
    cn, pn = np.asarray(child.normals), np.asarray(g.normals)
    if not np.all(np.abs(cn - pn[par]) <= 1e-9):
        ctx.violation("grid:%s:orientation" % what, "a child normal differs from its parent's normal", cid)
    if not np.array_equal(np.asarray(child.domain_indices), np.asarray(g.domain_indices)[par]):
        ctx.violation("grid:%s:domain_indices" % what, "a child does not inherit its parent's domain index", cid)
    # nesting: every child vertex lies in the parent's closed triangle
    P0 = pV[:, pE[0, par]]
    A = pV[:, pE[1, par]] - P0
    B = pV[:, pE[2, par]] - P0
    for l in range(3):
        d = cV[:, cE[l]] - P0
        aa = np.sum(A * A, 0); ab = np.sum(A * B, 0); bb = np.sum(B * B, 0)  # noqa: E702
        da = np.sum(d * A, 0); db = np.sum(d * B, 0)  # noqa: E702
        det = aa * bb - ab * ab
        u = (bb * da - ab * db) / det
        v = (aa * db - ab * da) / det
        if not np.all((u > -1e-9) & (v > -1e-9) & (u + v < 1 + 1e-9)):
            ctx.violation("grid:%s:nesting" % what, "a child vertex lies outside its parent", cid)
            break
    # conformity of the refinement: closedness is inherited
    return par


def _derived(ctx, api, g, m, cid, walk, rng, R, M, union, grid_from_segments):
    """refine, barycentric refinement, union, segment extraction."""
    if g.number_of_elements <= (60 if ctx.quick else 400):
        st0 = _grid_state(g)
        gr = g.refine()
        walk(gr, cid + ":refine", what="refine()")
        _check_children(ctx, cid + ":refine", "refine", 4, R, g, gr)
        if np.asarray(g.edge_on_boundary).sum() == 0 and np.asarray(gr.edge_on_boundary).sum() != 0:
            ctx.violation("grid:refine:not_conforming", "refinement of a closed grid has boundary edges", cid)
        gb = g.barycentric_refinement
        walk(gb, cid + ":bary", what="barycentric_refinement")
        _check_children(ctx, cid + ":bary", "barycentric", 6, R, g, gb)
        if gb.number_of_vertices != g.number_of_vertices + g.number_of_edges + g.number_of_elements:
            ctx.violation("grid:barycentric:vertex_count", "%d vs V+E+F=%d" % (gb.number_of_vertices, g.number_of_vertices + g.number_of_edges + g.number_of_elements), cid)
        if g.barycentric_refinement is not gb:
            ctx.violation("grid:barycentric:not_cached", "barycentric_refinement returns a new object each time", cid)
        if _grid_state(g) != st0:
            ctx.violation("grid:refine:operand_modified", "refine()/barycentric_refinement changed the parent grid", cid)
        if not ctx.quick and g.number_of_elements <= 40:
            grr = gr.refine()
            walk(grr, cid + ":refine2", what="refine().refine()")
            _check_children(ctx, cid + ":refine2", "refine", 4, R, gr, grr)
    # segments (single-domain meshes get spatial patches with arbitrary labels first, so that every family is exercised,
    # including segments whose vertex numbers are sparse and large in the parent numbering)
    doms = sorted(set(np.asarray(g.domain_indices).tolist()))
    if len(doms) < 2 and g.number_of_elements >= 4:
        lab = M.assign_domains(m, rng, ndom=min(4, g.number_of_elements // 2), values=[int(x) for x in rng.choice(500, size=4, replace=False)])
        g = M.to_grid(lab)
        m = lab
        doms = sorted(set(np.asarray(g.domain_indices).tolist()))
    for _rep in range(2 if len(doms) >= 2 else 0):
        k = int(rng.integers(1, len(doms)))
        segs = [int(x) for x in rng.choice(doms, size=k, replace=False)]
        st0 = _grid_state(g)
        gs = grid_from_segments(g, segs)
        walk(gs, cid + ":segments", what="grid_from_segments")
        if _grid_state(g) != st0:
            ctx.violation("grid:segments:operand_modified", "grid_from_segments changed the parent grid", cid)
        sel = np.isin(np.asarray(g.domain_indices), segs)
        want = _tri_rows(np.asarray(g.vertices), np.asarray(g.elements)[:, sel], np.asarray(g.domain_indices)[sel])
        got = _tri_rows(np.asarray(gs.vertices), np.asarray(gs.elements), np.asarray(gs.domain_indices))
        if want.shape != got.shape or not np.array_equal(want, got):
            ctx.violation("grid:segments:content", "grid_from_segments(%s) does not contain exactly the selected elements with the same vertex order and domain index" % segs, cid)
        used = np.unique(np.asarray(gs.elements))
        if len(used) != gs.number_of_vertices:
            ctx.violation("grid:segments:unused_vertices", "segment grid keeps vertices that no element uses", cid)
    # union
    other = M.octahedron()
    other.V = other.V * 0.3 + np.array([[5.0], [1.0], [0.0]])
    other = M.assign_domains(other, rng, 2, values=[7, 3])
    go = M.to_grid(other)
    for variant in range(3):
        sw = [bool(rng.integers(2)), bool(rng.integers(2))] if variant else None
        if variant == 2:
            dom = [int(x) for x in rng.choice(50, size=2, replace=False)]
        else:
            dom = None
        norm = bool(variant != 1)
        before = [_grid_state(g), _grid_state(go)]
        gu = union([g, go], domain_indices=dom, swapped_normals=sw, normalize_domain_indices=norm)
        c2 = "%s:union%d" % (cid, variant)
        walk(gu, c2, what="union")
        # a derived grid is a new grid: the operands keep their vertices, elements and domain indices (otherwise grids derived
        # from them earlier - refinements, the cached barycentric refinement, segment grids - stop being nested domain-wise)
        for part, (gp, st) in enumerate(zip((g, go), before)):
            changed = [n for n, (x, y) in zip(_STATE_NAMES, zip(st, _grid_state(gp))) if x != y]
            ctx.count("operand_state_comparisons")
            if changed:
                ctx.violation("grid:union:operand_modified", "union(normalize_domain_indices=%s) changed %s of operand %d" % (norm, changed, part), c2)
        ne0 = g.number_of_elements
        if gu.number_of_elements != ne0 + go.number_of_elements or gu.number_of_vertices != g.number_of_vertices + go.number_of_vertices:
            ctx.violation("grid:union:counts", "element/vertex counts", c2)
            continue
        tot = np.asarray(g.volumes).sum() + np.asarray(go.volumes).sum()
        if abs(np.asarray(gu.volumes).sum() - tot) > 1e-12 * tot:
            ctx.violation("grid:union:area", "total area changed", c2)
        for part, (gp, off, cnt) in enumerate(((g, 0, ne0), (go, ne0, go.number_of_elements))):
            swp = bool(sw[part]) if sw else False
            # same triangles, in order
            pv = np.asarray(gp.vertices)[:, np.asarray(gp.elements).astype(int)]  # (3 coords, 3 local, ne)
            uv = np.asarray(gu.vertices)[:, np.asarray(gu.elements).astype(int)[:, off:off + cnt]]
            want = pv[:, [0, 2, 1], :] if swp else pv
            if not np.array_equal(uv, want):
                ctx.violation("grid:union:geometry", "part %d (swapped=%s): element vertices differ" % (part, swp), c2)
            sign = -1.0 if swp else 1.0
            if not np.all(np.abs(np.asarray(gu.normals)[off:off + cnt] - sign * np.asarray(gp.normals)) < 1e-12):
                ctx.violation("grid:union:orientation", "part %d (swapped=%s): normals" % (part, swp), c2)
            du = np.asarray(gu.domain_indices)[off:off + cnt].astype(int)
            dp = np.asarray(gp.domain_indices).astype(int)
            if dom is not None:
                if not np.all(du == dom[part]):
                    ctx.violation("grid:union:domain_indices_given", "part %d should carry index %d" % (part, dom[part]), c2)
            else:
                # the partition into domains is preserved inside each part, order preserving
                if len(set(zip(du.tolist(), dp.tolist()))) != len(set(dp.tolist())) or len(set(du.tolist())) != len(set(dp.tolist())):
                    ctx.violation("grid:union:domain_partition", "part %d: domains merged or split" % part, c2)
                else:
                    mp = dict(zip(dp.tolist(), du.tolist()))
                    ks = sorted(mp)
                    if any(mp[a] >= mp[b] for a, b in zip(ks[:-1], ks[1:])):
                        ctx.violation("grid:union:domain_order", "part %d: order of domain indices not preserved" % part, c2)
        if dom is None:
            du = np.asarray(gu.domain_indices).astype(int)
            d0, d1 = set(du[:ne0].tolist()), set(du[ne0:].tolist())
            if d0 & d1:
                ctx.violation("grid:union:domain_collision", "the two grids share a domain index %s" % sorted(d0 & d1), c2)
            if norm and sorted(d0 | d1) != list(range(len(d0 | d1))):
                ctx.violation("grid:union:domain_not_normalised", "indices %s are not 0..N-1" % sorted(d0 | d1), c2)


_STATE_NAMES = ("vertices", "elements", "domain_indices", "data('double').domain_indices", "data('single').domain_indices", "data('double').elements")


def _grid_state(g):
    """Byte-exact snapshot of what defines a grid (public arrays and the data containers the kernels read)."""
    out = [np.asarray(g.vertices).tobytes(), np.asarray(g.elements).tobytes(), np.asarray(g.domain_indices).tobytes()]
    for prec, attr in (("double", "domain_indices"), ("single", "domain_indices"), ("double", "elements")):
        try:
            out.append(np.asarray(getattr(g.data(prec), attr)).tobytes())
        except Exception:
            out.append(b"")
    return out


def _tri_rows(V, E, D):
    E = np.asarray(E).astype(int)
    rows = np.concatenate([V[:, E[0]].T, V[:, E[1]].T, V[:, E[2]].T, np.asarray(D, dtype=float)[:, None]], axis=1)
    if len(rows) == 0:
        return rows
    order = np.lexsort(rows.T[::-1])
    return rows[order]


if __name__ == "__main__":
    main()
