"""C17 — FMM-mode operators equal dense-mode ones given an exact far-field evaluator.

`vlib/fake_exafmm` replaces the `exafmm` package by exact direct summation of the same point sources, so every
line of bempp-cl's FMM glue (point maps, normal/curl/basis/div transforms, near-field correction, singular part,
caching) runs for real and the result must equal the dense assembler to rounding.
A pre-launch monitor validates the index arithmetic of the bounds-unchecked point-map kernels.
"""

import numpy as np

from vlib import boot
from vlib.verdict import Ctx, Rejected

TOL = 1e-10


def install_point_map_monitor(ctx_problems):
    """Wrap the JIT point-map builders: validate that the support positions used as array offsets stay inside the
    arrays (they are sized by the support). An out-of-range launch is reported and NOT executed."""
    import bempp_cl.api.space.space as sp
    import bempp_cl.api.fmm.helpers as fh

    class OutOfBounds(Exception):
        pass

    def wrap(mod, name, sup_pos):
        real = getattr(mod, name)

        def shim(*a):
            se = np.asarray(a[sup_pos]).astype(np.int64)
            pyf = getattr(real, "py_func", None)
            if pyf is not None and len(se) and se.max() >= len(se):
                # Partial support: the arrays are sized by the support while element indices exceed it. The production
                # kernel is compiled without bounds checks, so it is replayed *interpreted* here (NumPy checks every
                # slice): an index slip surfaces as an exception instead of silent heap corruption.
                try:
                    return pyf(*a)
                except (IndexError, ValueError) as e:
                    ctx_problems.append(("fmm:point_map:out_of_bounds_write", "%s.%s on a support of %d elements with largest element index %d: %s: %s"
                                         % (mod.__name__.split(".")[-1], name, len(se), int(se.max()), type(e).__name__, e)))
                    raise OutOfBounds("%s: out-of-bounds access caught by the interpreted replay" % name)
            return real(*a)

        shim.__wrapped__ = real
        setattr(mod, name, shim)

    wrap(sp, "map_space_to_points_impl", 4)
    wrap(fh, "map_space_to_points_impl", 4)
    return OutOfBounds


def bary_reference_space(api, space, kind):
    """Plain element-wise space on the barycentric grid with the same local basis as a dual-grid space."""
    from checks.C04 import full_space

    g = space.grid
    return full_space(api, g, {"DUAL0": "DP0", "DUAL1": "DP1", "BC": "RWG", "RBC": "SNC"}[kind], None)


def main():
    ctx = Ctx("C17")
    ctx.rule = ("boundary operators (4 scalar ops x Laplace/Helmholtz/modified Helmholtz, Maxwell E/H) and potential operators created with assembler='fmm' on "
                "an exact-summation backend vs their dense counterparts: spaces P1/DP0/DP1/RWG/SNC on whole grids, segments, dual-grid spaces; same grid and two "
                "grids; real/complex wavenumbers and vectors; global quadrature orders; both near-field representations. Distinct = (grids, operator, spaces, k, order, mode).")
    ctx.assumptions = ["vlib/fake_exafmm sums the same point sources exactly (self-interaction 0) and is independent of bempp code",
                       "FMM evaluators read the GLOBAL quadrature order (that coupling is C18's matter): the dense reference uses the same global order"]
    boot.boot(stubs=("fake_exafmm",))
    import bempp_cl.api as api
    import exafmm
    from vlib import meshes as M, monitors as mon, ops as O, spaces as S

    assert api.check_for_fmm()
    problems = []
    OutOfBounds = install_point_map_monitor(problems)
    rec = mon.LAUNCH.install()
    if not ctx.worker:
        ctx.spawn_san("checks.C17")
    rng0 = ctx.rng("pool")
    mild = dict(jitter=0.05, strength=0.2, min_angle=20.0)
    meshA = M.assign_domains(M.distort(M.refine(M.octahedron(), 1), rng0, **mild), rng0, 3, values=[5, 2, 9])
    meshB = M.distort(M.cube(face_domains=True), rng0, **mild)
    meshB.V = meshB.V * 0.8 + np.array([[3.0], [0.5], [-0.3]])
    meshS = M.assign_domains(M.distort(M.screen(3), rng0, **mild), rng0, 2, values=[1, 4])
    grids = {"octa_r1": (meshA, M.to_grid(meshA)), "cube": (meshB, M.to_grid(meshB)), "screen3": (meshS, M.to_grid(meshS))}
    GP = api.GLOBAL_PARAMETERS
    KA = {"DP0": ("DP", 0), "DP1": ("DP", 1), "P1": ("P", 1), "RWG": ("RWG", 0), "SNC": ("SNC", 0), "DUAL0": ("DUAL", 0), "DUAL1": ("DUAL", 1), "BC": ("BC", 0), "RBC": ("RBC", 0)}

    def spaces_for(gname, kind, variant, rng):
        mesh, grid = grids[gname]
        opts = {}
        cls = "whole"
        if variant == "segment":
            opts = S.draw_opts(rng, mesh, S.Topo(mesh.V, mesh.E), *KA[kind], variant=int(rng.integers(1, 5)))[0] or {}
            opts.pop("swapped_normals", None)
            if "segments" not in opts:
                opts["segments"] = [int(sorted(set(mesh.D.tolist()))[-1])]
            cls = "segment"
            exp = S.expected_entities(S.Topo(mesh.V, mesh.E), mesh.D, *KA[kind], opts)
            if exp is None or len(exp[1]) == 0:
                raise Rejected("empty selection")
        elif variant == "open_boundary":
            opts = {"include_boundary_dofs": True}
        elif variant == "swapped":
            # whole grid, normals swapped on one domain (drawn independently for test and trial)
            opts = {"swapped_normals": [int(rng.choice(sorted(set(mesh.D.tolist()))))]}
            if not mesh.is_closed_manifold() and kind in ("P1", "RWG", "SNC"):
                opts["include_boundary_dofs"] = True
            cls = "swapped"
        return S.make_space(api, grid, *KA[kind], **opts), opts, cls

    def compare(cid, descr, build, x_complex, mech_cls, expect_backend=True):
        """build(assembler) -> boundary operator."""
        with ctx.guard(cid, "fmm:%s" % mech_cls, allow=S.ALLOWED_REJECTIONS + ("empty selection",)):
            ncalls = len(exafmm.CALLS)
            try:
                op_f = build("fmm")
                wf = op_f.weak_form()
                n = wf.shape[1]
                rng = ctx.rng(cid, "x")
                x = rng.normal(size=n) + (1j * rng.normal(size=n) if x_complex else 0)
                yf = np.asarray(wf @ x).ravel()
            except OutOfBounds:
                for m, s in problems:
                    ctx.violation(m + ":" + mech_cls.split(":")[-1], "%s: %s" % (cid, s), cid, data=descr)
                problems.clear()
                ctx.case(cid, descr)
                return
            ref = build("dense")
            yd = np.asarray(ref @ x).ravel() if isinstance(ref, np.ndarray) else np.asarray(ref.weak_form() @ x).ravel()
            dev = O.rel(yf, yd)
            ctx.note_max("worst_rel_dev", dev)
            ctx.diff("y:%s" % cid, yf, scale=float(np.abs(yd).max()) if yd.size else 0.0)
            ctx.case(cid, dict(descr, n=int(n), rel_dev=dev, backend_evaluations=len(exafmm.CALLS) - ncalls))
            if expect_backend and len(exafmm.CALLS) == ncalls:
                ctx.violation("fmm:backend_not_called:" + mech_cls, "%s: the far-field evaluator was never invoked" % cid, cid)
            if not np.all(np.isfinite(yf)) or dev > TOL:
                ctx.violation("fmm:mismatch:" + mech_cls, "%s: ||fmm(x) - dense(x)|| / ||.|| = %.3e" % (cid, dev), cid, data=descr)
        for m, s in rec.drain():
            ctx.violation(m, "%s: %s" % (cid, s), cid)
        problems.clear()

    scal = [("laplace", None), ("helmholtz", 1.3 + 0.4j), ("modified_helmholtz", 0.9)]
    if not ctx.quick:
        scal += [("helmholtz", 2.0), ("modified_helmholtz", 2.5), ("helmholtz", 0.9 - 0.3j)]
    orders = [4] if ctx.quick or ctx.worker else [2, 4, 6]
    modes = ["evaluate", "sparse"]
    variants = ["whole", "segment"]
    cases = 0
    for order in orders:
        GP.quadrature.regular = order
        for mode in modes:
            GP.fmm.near_field_representation = mode
            api.clear_fmm_cache()
            for gname, g2name in (("octa_r1", None), ("screen3", None), ("octa_r1", "cube")):
                if ctx.worker and gname == "screen3":
                    continue
                if ctx.quick and mode == "sparse" and g2name is not None:
                    continue
                for fam, k in scal:
                    if isinstance(k, complex) and gname == "screen3":
                        k = complex(np.conj(k))   # Im k < 0 on one of the grids
                    for op in O.SCALAR_OPS:
                        for variant in variants + ["swapped"]:
                            if ctx.quick and (mode == "sparse" and variant == "segment"):
                                continue
                            if variant == "swapped" and (op == "single_layer" or (ctx.quick and (mode == "sparse" or gname != "octa_r1"))):
                                continue   # only operators that contain the normal; quick: one grid pair per operator
                            cid = "b:%s%s:%s.%s:k=%s:%s:o%d:%s" % (gname, "|" + g2name if g2name else "", fam, op, k, variant, order, mode)
                            if not ctx.want(cid):
                                continue
                            rng = ctx.rng(cid)
                            trial_kind = "P1" if op in ("hypersingular", "double_layer") else str(rng.choice(["DP0", "P1", "DP1"]))
                            test_kind = "P1" if op == "hypersingular" else str(rng.choice(["DP0", "P1", "DP1"]))
                            if ctx.quick:
                                trial_kind = "P1" if op != "single_layer" else "DP0"
                                test_kind = "P1"
                            descr = {"grids": [gname, g2name], "op": fam + "." + op, "k": k, "trial": trial_kind, "test": test_kind, "variant": variant, "order": order, "near_field": mode}

                            def build(assembler, _f=fam, _o=op, _k=k, _tk=trial_kind, _sk=test_kind, _v=variant, _g=gname, _g2=g2name, _cid=cid):
                                r = ctx.rng(_cid, "spaces")
                                v1 = "open_boundary" if (_g == "screen3" and _v == "whole") else _v
                                trial, _, _ = spaces_for(_g, _tk, v1, r)
                                test, _, _ = spaces_for(_g2 or _g, _sk, v1 if not _g2 else (_v if _v in ("segment", "swapped") else "whole"), r)
                                return O.boundary(api, _f, _o, trial, test, test, _k, assembler=assembler)

                            # (a function of the case id, not of a running counter: the sanitizer worker runs a sub-set of the cases
                            # and must apply the operator to the same vector as its parent)
                            compare(cid, descr, build, x_complex=bool(int(ctx.rng(cid, "xc").integers(2))), mech_cls="%s:%s" % ("scalar", variant))
                            cases += 1
                # Maxwell
                for opname in ("electric_field", "magnetic_field"):
                    for variant in variants:
                        if ctx.quick and mode == "sparse":
                            continue
                        k = (1.1 + 0.2j if gname != "screen3" else 1.1 - 0.2j) if opname == "electric_field" else 0.9
                        cid = "b:%s%s:maxwell.%s:k=%s:%s:o%d:%s" % (gname, "|" + g2name if g2name else "", opname, k, variant, order, mode)
                        if not ctx.want(cid):
                            continue
                        descr = {"grids": [gname, g2name], "op": "maxwell." + opname, "k": k, "variant": variant, "order": order, "near_field": mode}

                        def build(assembler, _o=opname, _k=k, _v=variant, _g=gname, _g2=g2name, _cid=cid):
                            r = ctx.rng(_cid, "spaces")
                            v1 = "open_boundary" if (_g == "screen3" and _v == "whole") else _v
                            rwg, _, _ = spaces_for(_g, "RWG", v1, r)
                            snc, _, _ = spaces_for(_g2 or _g, "SNC", v1 if not _g2 else ("segment" if _v == "segment" else "whole"), r)
                            return O.boundary(api, "maxwell", _o, rwg, rwg, snc, _k, assembler=assembler)

                        compare(cid, descr, build, x_complex=True, mech_cls="maxwell:%s" % variant)
    ctx.lap("boundary_operators")

    # ------------------------------------------------------------------ fmm.dense_evaluation = True: the interface sums the point
    # sources itself (bempp_cl.api.fmm.helpers.dense_interaction_evaluator) instead of calling the backend - a second
    # "exact summation of the same point sources", with the same near-field correction
    if not ctx.worker:
        GP.quadrature.regular = 4
        GP.fmm.near_field_representation = "evaluate"
        GP.fmm.dense_evaluation = True
        api.clear_fmm_cache()
        try:
            for fam, op, tk_, sk_, k in [("laplace", "single_layer", "DP0", "P1", None), ("helmholtz", "double_layer", "P1", "P1", 1.3 + 0.4j)] + \
                    ([] if ctx.quick else [("modified_helmholtz", "adjoint_double_layer", "P1", "P1", 0.9), ("laplace", "hypersingular", "P1", "P1", None)]):
                for gname, g2name in (("octa_r1", None), ("octa_r1", "cube")):
                    cid = "dense_evaluation:%s%s:%s.%s" % (gname, "|" + g2name if g2name else "", fam, op)
                    if not ctx.want(cid):
                        continue
                    descr = {"grids": [gname, g2name], "op": fam + "." + op, "k": k, "fmm.dense_evaluation": True}

                    def build(assembler, _f=fam, _o=op, _k=k, _tk=tk_, _sk=sk_, _g=gname, _g2=g2name, _cid=cid):
                        r = ctx.rng(_cid, "spaces")
                        trial, _, _ = spaces_for(_g, _tk, "whole", r)
                        test, _, _ = spaces_for(_g2 or _g, _sk, "whole", r)
                        return O.boundary(api, _f, _o, trial, test, test, _k, assembler=assembler)

                    compare(cid, descr, build, x_complex=True, mech_cls="scalar:dense_evaluation", expect_backend=False)
        finally:
            GP.fmm.dense_evaluation = False
            api.clear_fmm_cache()
        ctx.lap("dense_evaluation")

    # ------------------------------------------------------------------ dual-grid spaces (dense reference through the barycentric grid)
    GP.quadrature.regular = 4
    GP.fmm.near_field_representation = "evaluate"
    api.clear_fmm_cache()
    if not ctx.worker:
        mesh, grid = grids["octa_r1"]
        for kind_t, kind_s, fam, op, k in [("DUAL0", "P1", "laplace", "single_layer", None), ("P1", "DUAL0", "laplace", "double_layer", None),
                                           ("DUAL1", "DUAL1", "helmholtz", "single_layer", 1.2)][: (2 if ctx.quick else 3)]:
            cid = "dual:%s,%s:%s.%s" % (kind_t, kind_s, fam, op)
            if not ctx.want(cid):
                continue
            descr = {"op": fam + "." + op, "trial": kind_t, "test": kind_s, "k": k}

            def build(assembler, _kt=kind_t, _ks=kind_s, _f=fam, _o=op, _k=k):
                trial = api.function_space(grid, *KA[_kt])
                test = api.function_space(grid, *KA[_ks])
                if assembler == "fmm":
                    return O.boundary(api, _f, _o, trial, test, test, _k, assembler="fmm")
                # dense reference on the barycentric grid: T_test' A_bary T_trial
                from bempp_cl.api.space.space import return_compatible_representation
                bt, bs = return_compatible_representation(trial, test)
                ft = bary_reference_space(api, bt, "DUAL1" if bt.shapeset.identifier == "p1_discontinuous" else "DUAL0")
                fs = bary_reference_space(api, bs, "DUAL1" if bs.shapeset.identifier == "p1_discontinuous" else "DUAL0")
                A = O.dense(O.boundary(api, _f, _o, ft, fs, fs, _k))
                Tt = (bt.map_to_full_grid @ bt.dof_transformation).toarray()
                Ts = (bs.map_to_full_grid @ bs.dof_transformation).toarray()
                return Ts.T @ A @ Tt

            compare(cid, descr, build, x_complex=False, mech_cls="scalar:dual_grid")
        ctx.lap("dual_grid_spaces")

    # ------------------------------------------------------------------ potentials
    pts = ctx.rng("pts").normal(size=(3, 23)) * 2.5
    pts = pts[:, np.linalg.norm(pts, axis=0) > 1.8]
    potcfg = [("laplace", "single_layer", None, "DP0"), ("laplace", "double_layer", None, "P1"), ("helmholtz", "single_layer", 1.3 + 0.4j, "P1"),
              ("helmholtz", "double_layer", 0.8, "P1"), ("modified_helmholtz", "single_layer", 0.9, "DP0"), ("maxwell", "electric_field", 1.1, "RWG"),
              ("maxwell", "magnetic_field", 0.7 + 0.3j, "RWG")]
    if ctx.quick or ctx.worker:
        potcfg = [potcfg[i] for i in (0, 1, 2, 5)]
    for fam, op, k, kind in potcfg:
        for variant in variants + ["swapped"]:
            cid = "p:%s.%s:k=%s:%s:%s" % (fam, op, k, kind, variant)
            if not ctx.want(cid) or (variant == "swapped" and op != "double_layer"):
                continue
            with ctx.guard(cid, "fmm_potential:%s" % variant, allow=S.ALLOWED_REJECTIONS + ("empty selection",)):
                r = ctx.rng(cid)
                try:
                    sp, opts, _ = spaces_for("octa_r1", kind, variant, r)
                    c = r.normal(size=sp.global_dof_count) + 1j * r.normal(size=sp.global_dof_count) * (kind == "RWG")
                    gf = api.GridFunction(sp, coefficients=c)
                    ncalls = len(exafmm.CALLS)
                    vf = np.asarray(O.potential(api, fam, op, sp, pts, k, assembler="fmm").evaluate(gf))
                    vd = np.asarray(O.potential(api, fam, op, sp, pts, k, assembler="dense").evaluate(gf))
                except OutOfBounds:
                    for m, s in problems:
                        ctx.violation(m + ":potential_" + variant, "%s: %s" % (cid, s), cid)
                    problems.clear()
                    ctx.case(cid, {"potential": fam + "." + op, "variant": variant})
                    continue
                dev = O.rel(vf, vd)
                ctx.note_max("worst_rel_dev_potentials", dev)
                ctx.diff("pot:%s" % cid, vf, scale=float(np.abs(vd).max()))
                ctx.case(cid, {"potential": fam + "." + op, "k": k, "space": kind, "variant": variant, "opts": S.opts_key(opts), "rel_dev": dev})
                if len(exafmm.CALLS) == ncalls:
                    ctx.violation("fmm:backend_not_called:potential", "%s" % cid, cid)
                if vf.shape != vd.shape or not np.all(np.isfinite(vf)) or dev > TOL:
                    ctx.violation("fmm_potential:mismatch:%s" % variant, "%s: ||fmm - dense|| / ||dense|| = %.3e (shapes %s %s)" % (cid, dev, vf.shape, vd.shape), cid)
            problems.clear()
    ctx.lap("potentials")
    ctx.note("backend_evaluate_calls", len(exafmm.CALLS))
    ctx.note("launch_recorder", rec.summary())
    partial = ctx.only_case is not None or bool(ctx.args.only) or bool(ctx.worker)
    ctx.obligation("exact-summation backend was invoked", len(exafmm.CALLS) > 0 or partial, len(exafmm.CALLS))
    ctx.finish()


if __name__ == "__main__":
    main()
