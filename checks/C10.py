"""C10 — barycentric and dual-grid spaces represent the functions they claim to.

(1) pointwise: for DP0, P1, RWG, SNC the function with coefficient vector c in the original space and the function with the
    same vector in space.barycentric_representation() agree at interior points of every barycentric sub-triangle (points are
    located geometrically in both grids; no numbering table of the library is used);
(2) nodal values of the scalar dual bases: DUAL0 = 1 on the barycentric elements at its vertex, 0 elsewhere; DUAL1 = 1 at the
    barycentre of its element, 1/2 at the midpoints of its edges, 1/n at its n-valent vertices (n from brute force), 0 at
    every other node of the barycentric grid;
(3) mixed mass matrices identity(primal/dual, ., dual/primal) equal the exact integral of the pointwise product of the two
    bases, computed here with a degree-exact rule on the barycentric sub-triangles from the *evaluated* bases.
"""

import numpy as np

from vlib import boot
from vlib.verdict import Ctx

KA = {"DP0": ("DP", 0), "P1": ("P", 1), "RWG": ("RWG", 0), "SNC": ("SNC", 0), "DUAL0": ("DUAL", 0), "DUAL1": ("DUAL", 1), "BC": ("BC", 0), "RBC": ("RBC", 0)}


def bary_mesh_of(M, grid):
    bg = grid.barycentric_refinement
    return bg, M.Mesh(np.asarray(bg.vertices), np.asarray(bg.elements), np.asarray(bg.domain_indices), name="bary")


def main():
    ctx = Ctx("C10")
    ctx.rule = ("(mesh: non-uniform, closed/open, vertex valences 3..8) x (space kind, options incl. segments) x random coefficient vectors: pointwise agreement of a space "
                "with its barycentric representation on all 6 sub-triangles; nodal values of DUAL0/DUAL1; mixed primal/dual mass matrices vs reference quadrature of the "
                "evaluated bases. Distinct = (mesh, space config, relation).")
    ctx.assumptions = ["points are located in the coarse and in the barycentric grid geometrically (checks/C03.locate)",
                       "reference quadrature: collapsed Gauss rule exact to degree 4 on every barycentric element (products of the bases have degree <= 2)",
                       "bases are evaluated through space.evaluate / dof_transformation on each space's own grid"]
    boot.boot()
    import bempp_cl.api as api
    from vlib import meshes as M, monitors as mon, ops as O, spaces as S, refmodel as R
    from checks.C03 import locate, basis_matrix

    rng0 = ctx.rng("pool")
    pool = [("tetra", M.distort(M.tetrahedron(), rng0), True), ("octa", M.assign_domains(M.distort(M.octahedron(), rng0), rng0, 2, values=[3, 7]), True),
            ("screen3", M.assign_domains(M.distort(M.screen(3), rng0), rng0, 2, values=[1, 4]), False), ("cube6", M.distort(M.cube(face_domains=True), rng0), True)]
    if not ctx.quick:
        pool += [("icosa", M.distort(M.icosahedron(), rng0), True), ("torus", M.assign_domains(M.distort(M.torus(6, 4), rng0), rng0, 3, values=[3, 0, 8]), True),
                 ("lprism", M.assign_domains(M.distort(M.l_prism(), rng0), rng0, 2, values=[0, 6]), True), ("openbox", M.assign_domains(M.cube_minus_face(), rng0, 2, values=[4, 7]), False),
                 ("octa_r1", M.distort(M.refine(M.octahedron(), 1), rng0), True)]
    xq, wq = R.triangle_rule(3)
    worst = {"pointwise": 0.0, "mass": 0.0, "nodal": 0.0}
    valences = set()
    for mname, mesh, closed in pool:
        grid = M.to_grid(mesh)
        topo = S.Topo(mesh.V, mesh.E)
        bg, bmesh = bary_mesh_of(M, grid)
        nb = bmesh.ne
        # sample points: quadrature points of every barycentric element, located in both grids
        X = np.hstack([bmesh.V[:, bmesh.E[0, e]][:, None] + np.column_stack([bmesh.V[:, bmesh.E[1, e]] - bmesh.V[:, bmesh.E[0, e]],
                                                                             bmesh.V[:, bmesh.E[2, e]] - bmesh.V[:, bmesh.E[0, e]]]) @ xq for e in range(nb)])
        where_b = locate(bmesh, X)
        where_c = locate(mesh, X)
        ie_b = 2 * bmesh.areas()
        Wt = np.concatenate([wq * ie_b[e] for e in range(nb)])
        cache = {}

        def F_of(space):
            key = id(space)
            if key not in cache:
                on_bary = space.grid.number_of_elements == nb and nb != mesh.ne
                cache[key] = (space, basis_matrix(space, where_b if on_bary else where_c))
            return cache[key][1]

        def draw(kind, variant, rng):
            if variant == 0:
                opts = {}
            else:
                opts = S.draw_opts(rng, mesh, topo, *KA[kind], variant=variant)[0] or {}
            opts.pop("swapped_normals", None)
            if (not closed) and kind in ("BC", "RBC"):
                opts.pop("include_boundary_dofs", None)
            return opts

        nvar = 2 if ctx.quick else 5
        # ------------------------------------------------------------ (1) pointwise: primal vs barycentric representation
        for kind in ("DP0", "P1", "RWG", "SNC"):
            for vi in range(nvar):
                cid = "%s:pointwise:%s:v%d" % (mname, kind, vi)
                if not ctx.want(cid):
                    continue
                rng = ctx.rng(cid)
                opts = draw(kind, vi, rng)
                with ctx.guard(cid, "barycentric_representation:%s" % kind, allow=S.ALLOWED_REJECTIONS):
                    sp = S.make_space(api, grid, *KA[kind], **opts)
                    bsp = sp.barycentric_representation()
                    if bsp is None:
                        ctx.count("no_barycentric_representation:" + kind)
                        continue
                    Fc, Fb = F_of(sp), F_of(bsp)
                    scale = max(np.abs(Fc).max(), 1e-300)
                    dev = float(np.abs(Fc - Fb).max() / scale) if Fc.shape == Fb.shape else np.inf
                    worst["pointwise"] = max(worst["pointwise"], dev if np.isfinite(dev) else 0)
                    ctx.case(cid, {"mesh": mesh.describe(), "space": kind, "opts": S.opts_key(opts), "points": len(where_b), "max_rel_dev": dev})
                    if not np.isfinite(dev) or dev > 1e-12:
                        # which sub-triangles disagree (diagnostic only)
                        cod = sp.codomain_dimension
                        per_pt = np.abs(Fc - Fb).reshape(len(where_b), cod, -1).max(axis=(1, 2)) if Fc.shape == Fb.shape else None
                        bad_sub = sorted({int(where_b[i][0]) % 6 for i in np.flatnonzero(per_pt > 1e-12 * scale)}) if per_pt is not None else None
                        ctx.violation("barycentric_representation:pointwise:%s" % kind,
                                      "%s: the function and its barycentric representation differ by %.3e (relative to max |basis|); sub-triangles affected: %s; opts %s"
                                      % (cid, dev, bad_sub, S.opts_key(opts)), cid)

        # ------------------------------------------------------------ (2) nodal values of the scalar dual bases
        if True:   # closed and open grids (on a boundary edge the midpoint value is still 1/2, at a boundary vertex 1/n)
            cid = "%s:nodal:DUAL1" % mname
            if ctx.want(cid):
                with ctx.guard(cid, "dual_nodal_values:DUAL1"):
                    d1 = api.function_space(grid, "DUAL", 1)
                    # brute-force expected nodal values at the vertices of the barycentric grid
                    nvb = bmesh.nv
                    key = lambda x: tuple(np.round(x, 9))  # noqa: E731
                    vid = {key(bmesh.V[:, v]): v for v in range(nvb)}
                    expected = np.zeros((nvb, mesh.ne))
                    val = {v: len(topo.vertex_elems[v]) for v in range(mesh.nv)}
                    valences.update(val.values())
                    for e in range(mesh.ne):
                        a, b, c = (int(x) for x in mesh.E[:, e])
                        expected[vid[key(mesh.V[:, [a, b, c]].mean(axis=1))], e] = 1.0
                        for (p, q) in ((a, b), (b, c), (c, a)):
                            expected[vid[key(0.5 * (mesh.V[:, p] + mesh.V[:, q]))], e] = 0.5
                        for p in (a, b, c):
                            expected[vid[key(mesh.V[:, p])], e] = 1.0 / val[p]
                    # the global dof of coarse element e
                    got = np.full((nvb, d1.global_dof_count), np.nan)
                    corners = np.array([[0.0, 1.0, 0.0], [0.0, 0.0, 1.0]])
                    Tm = d1.dof_transformation.toarray()
                    l2g = np.asarray(d1.local2global).astype(int)
                    multi = 0.0
                    for be in range(nb):
                        vals = d1.evaluate(be, corners)[0]   # (3 shape, 3 corners)
                        for cidx in range(3):
                            row = vals[:, cidx] @ Tm[l2g[be]]
                            v = int(bmesh.E[cidx, be])
                            if np.isnan(got[v, 0]):
                                got[v] = row
                            else:
                                multi = max(multi, float(np.abs(got[v] - row).max()))   # continuity of the dual basis
                    # DUAL1 dof j <-> coarse element: through the underlying DP0 numbering (whole grid: dof j = element j)
                    dev = float(np.abs(got - expected).max())
                    worst["nodal"] = max(worst["nodal"], dev, multi)
                    ctx.case(cid, {"mesh": mesh.describe(), "space": "DUAL1", "max_abs_dev": dev, "discontinuity": multi, "valences": sorted(set(val.values()))})
                    if dev > 1e-12:
                        v, j = np.unravel_index(np.nanargmax(np.abs(got - expected)), got.shape)
                        ctx.violation("dual_nodal_values:DUAL1", "%s: basis function %d takes the value %.4f at barycentric node %d, documented value %.4f" % (cid, j, got[v, j], v, expected[v, j]), cid)
                    if multi > 1e-12:
                        ctx.violation("dual_nodal_values:DUAL1:discontinuous", "%s: a DUAL1 basis function is discontinuous on the barycentric grid (jump %.3e)" % (cid, multi), cid)
        # variant 0: whole grid; variants 1-4: one segment selection under all four include_boundary_dofs x
        # truncate_at_segment_edge combinations (each decides a different set of barycentric elements); then random draws
        doms_ = sorted(set(mesh.D.tolist()))
        rs_ = ctx.rng(mname, "dual0_segments")
        seg_ = sorted(int(x) for x in rs_.choice(doms_, size=int(rs_.integers(1, len(doms_))), replace=False)) if len(doms_) >= 2 else None
        combos_ = [(True, False), (True, True), (False, False), (False, True)] if seg_ else []
        for vi in range(1 + len(combos_) + (nvar - 1)):
            cid = "%s:nodal:DUAL0:v%d" % (mname, vi)
            if not ctx.want(cid):
                continue
            rng = ctx.rng(cid)
            if vi == 0:
                opts = {} if closed else {"include_boundary_dofs": True}
            elif vi <= len(combos_):
                opts = {"segments": list(seg_), "include_boundary_dofs": combos_[vi - 1][0], "truncate_at_segment_edge": combos_[vi - 1][1]}
            else:
                opts = draw("DUAL0", vi - len(combos_), rng)
            with ctx.guard(cid, "dual_nodal_values:DUAL0", allow=S.ALLOWED_REJECTIONS):
                exp = S.expected_entities(topo, mesh.D, "DUAL", 0, opts)
                if exp is None or not exp[1]:
                    continue
                d0 = S.make_space(api, grid, "DUAL", 0, **opts)
                p1 = S.make_space(api, grid, "P", 1, **opts)
                # vertex of each dual dof = vertex of the P1 dof with the same index (DUAL0 is built on that P1 space)
                vert = {}
                l2g = np.asarray(p1.local2global).astype(int)
                mult = np.asarray(p1.local_multipliers)
                for e in range(mesh.ne):
                    for l in range(3):
                        if mult[e, l] != 0:
                            vert[l2g[e, l]] = int(mesh.E[l, e])
                req = S.requested_support(topo, mesh.D, opts)
                trunc = opts.get("truncate_at_segment_edge", False)
                cen = np.array([[1 / 3], [1 / 3]])
                Tm = d0.dof_transformation.toarray()
                bl2g = np.asarray(d0.local2global).astype(int)
                bsup = np.asarray(d0.support)
                dev = 0.0
                for be in range(nb):
                    coarse = int(where_c[be * len(wq)][0])
                    got = (d0.evaluate(be, cen)[0, 0, 0] * Tm[bl2g[be, 0]]) if bsup[be] else np.zeros(d0.global_dof_count)
                    bverts = {key_ for key_ in (tuple(np.round(bmesh.V[:, v], 9)) for v in bmesh.E[:, be])}
                    for j in range(d0.global_dof_count):
                        touches = tuple(np.round(mesh.V[:, vert[j]], 9)) in bverts
                        inside = bool(req[coarse]) or not trunc
                        want = 1.0 if (touches and inside) else 0.0
                        dev = max(dev, abs(got[j] - want))
                worst["nodal"] = max(worst["nodal"], dev)
                ctx.case(cid, {"mesh": mesh.describe(), "space": "DUAL0", "opts": S.opts_key(opts), "max_abs_dev": dev})
                if dev > 1e-12:
                    ctx.violation("dual_nodal_values:DUAL0", "%s: a DUAL0 basis function is not the indicator of the barycentric elements at its vertex (max deviation %.3f); opts %s" % (cid, dev, S.opts_key(opts)), cid)

        # ------------------------------------------------------------ (3) mixed mass matrices
        pairs = [("P1", "DUAL0"), ("DUAL0", "P1"), ("DP0", "DUAL1"), ("DUAL1", "DP0"), ("P1", "DUAL1"), ("DP0", "DUAL0"), ("RWG", "RBC"), ("BC", "SNC"), ("SNC", "BC"), ("RWG", "BC"), ("DUAL0", "DUAL0"), ("BC", "RBC")]
        if ctx.quick:
            pairs = pairs[:4] + pairs[6:9]
        for tk, sk in pairs:
            for vi in range(1 if ctx.quick else 3):
                cid = "%s:mass:%s,%s:v%d" % (mname, tk, sk, vi)
                if not ctx.want(cid):
                    continue
                if mesh.ne > 40 and ("BC" in (tk, sk) or "RBC" in (tk, sk)):
                    continue
                rng = ctx.rng(cid)
                with ctx.guard(cid, "mixed_mass_matrix:%s,%s" % (tk, sk), allow=S.ALLOWED_REJECTIONS):
                    if ("DUAL1" in (tk, sk)) and not closed and vi == 0:
                        pass
                    optsT = draw(tk, vi, rng) if vi else ({"include_boundary_dofs": True} if (not closed and tk in ("P1", "DUAL0", "RWG", "SNC")) else {})
                    optsS = dict(optsT) if vi % 2 == 0 else draw(sk, vi + 1, rng)
                    for kk, oo in ((tk, optsT), (sk, optsS)):
                        if kk in ("DP0", "DUAL1"):
                            for nm in ("include_boundary_dofs",):
                                oo.pop(nm, None)
                        if kk in ("BC", "RBC") and not closed:
                            oo.pop("include_boundary_dofs", None)
                    okay = True
                    for kk, oo in ((tk, optsT), (sk, optsS)):
                        ex_ = S.expected_entities(topo, mesh.D, *KA[kk], oo)
                        if ex_ is None or not ex_[1]:
                            okay = False
                    if not okay:
                        ctx.count("skipped_empty_selection")
                        continue
                    trial = S.make_space(api, grid, *KA[tk], **optsT)
                    test = S.make_space(api, grid, *KA[sk], **optsS)
                    order = 4 if vi % 2 == 0 else int(rng.integers(2, 9))
                    Mlib = O.dense(O.boundary(api, "sparse", "identity", trial, trial, test, parameters=O.params(api, order, 4)))
                    Ft, Fs = F_of(trial), F_of(test)
                    cod = trial.codomain_dimension
                    Wfull = np.repeat(Wt, cod)
                    Mref = (Fs * Wfull[:, None]).T @ Ft
                    dev = O.rel(Mlib, Mref)
                    worst["mass"] = max(worst["mass"], dev)
                    ctx.case(cid, {"mesh": mesh.describe(), "trial": [tk, S.opts_key(optsT)], "test": [sk, S.opts_key(optsS)], "order": order, "shape": list(Mlib.shape), "rel_dev": dev})
                    if Mlib.shape != Mref.shape or not np.all(np.isfinite(Mlib)) or dev > 1e-11:
                        ctx.violation("mixed_mass_matrix:%s,%s" % (tk, sk), "%s: ||identity - integral of the evaluated bases|| / ||.|| = %.3e (opts %s / %s, order %d)"
                                      % (cid, dev, S.opts_key(optsT), S.opts_key(optsS), order), cid)
    # ---------------------------------------------------------------- (4) rotated spaces: SNC = nu x RWG and RBC = nu x BC pointwise
    # nu = geometric element normal, reversed on the domains named in swapped_normals. The mass-matrix oracle above evaluates
    # both bases through the library, so the orientation the rotated spaces use is decided here against the geometry itself.
    # One grid stores a domain with reversed orientation (the only grids on which BC/RBC accept a partial swap).
    rng4 = ctx.rng("rotated")
    mrev = M.distort(M.refine(M.octahedron(), 1), rng4)
    mrev.D = np.where((mrev.V[2, mrev.E[0]] + mrev.V[2, mrev.E[1]] + mrev.V[2, mrev.E[2]]) < 0, 2, 1).astype(mrev.D.dtype)
    mrev = M.flip_orientation(mrev, mrev.D == 2)
    worst["rotated"] = 0.0
    for mname, mesh, swaps in [("octa_r1_reversed_domain", mrev, [[2]]), (pool[1][0], pool[1][1], [None, "first"])]:
        grid = M.to_grid(mesh)
        bg, bmesh = bary_mesh_of(M, grid)
        bc_ = np.array([[1 / 3, 0.2, 0.55], [1 / 3, 0.7, 0.15]])
        Xb = np.hstack([bmesh.V[:, bmesh.E[0, e]][:, None] + np.column_stack([bmesh.V[:, bmesh.E[1, e]] - bmesh.V[:, bmesh.E[0, e]],
                                                                              bmesh.V[:, bmesh.E[2, e]] - bmesh.V[:, bmesh.E[0, e]]]) @ bc_ for e in range(bmesh.ne)])
        wb, wc = locate(bmesh, Xb), locate(mesh, Xb)
        A_ = mesh.V[:, mesh.E[1]] - mesh.V[:, mesh.E[0]]
        B_ = mesh.V[:, mesh.E[2]] - mesh.V[:, mesh.E[0]]
        ngeo = np.cross(A_.T, B_.T)
        ngeo /= np.linalg.norm(ngeo, axis=1)[:, None]
        for sw in swaps:
            if sw == "first":
                sw = [int(sorted(set(mesh.D.tolist()))[0])]
            for ka, kb in (("RWG", "SNC"), ("BC", "RBC")):
                cid = "rotated:%s:%s=nu x %s:swapped=%s" % (mname, kb, ka, sw)
                if not ctx.want(cid) or (ka == "BC" and sw is not None and mesh is not mrev):
                    continue
                with ctx.guard(cid, "rotated_space:%s" % kb, allow=S.ALLOWED_REJECTIONS):
                    opts = {"swapped_normals": list(sw)} if sw else {}
                    a = S.make_space(api, grid, *KA[ka], **opts)
                    b = S.make_space(api, grid, *KA[kb], **opts)
                    on_bary = a.grid.number_of_elements == bmesh.ne and bmesh.ne != mesh.ne
                    Fa = basis_matrix(a, wb if on_bary else wc).reshape(len(wb), 3, -1)
                    Fb = basis_matrix(b, wb if on_bary else wc).reshape(len(wb), 3, -1)
                    nu = np.array([ngeo[int(e)] * (-1.0 if (sw and int(mesh.D[int(e)]) in sw) else 1.0) for e, _ in wc])
                    want = np.cross(nu[:, :, None], Fa, axisa=1, axisb=1, axisc=1)
                    dev = float(np.abs(Fb - want).max() / max(np.abs(Fa).max(), 1e-300)) if Fa.shape == Fb.shape else np.inf
                    worst["rotated"] = max(worst["rotated"], dev if np.isfinite(dev) else 0.0)
                    ctx.case(cid, {"mesh": mesh.describe(), "pair": [ka, kb], "swapped_normals": sw, "points": len(wb), "max_rel_dev": dev})
                    if not (dev <= 1e-12):
                        bad = sorted({int(wb[i][0]) for i in np.flatnonzero(np.abs(Fb - want).max(axis=(1, 2)) > 1e-12 * np.abs(Fa).max())})[:8] if Fa.shape == Fb.shape else None
                        ctx.violation("rotated_space:%s:not_nu_cross_%s" % (kb, ka), "%s: %s differs from nu x %s by %.3e of max |basis| (swapped_normals=%s; first barycentric elements affected: %s)"
                                      % (cid, kb, ka, dev, sw, bad), cid)
    # ---------------------------------------------------------------- (5) BC / RBC on a segment without truncation are the whole-grid functions
    # With truncate_at_segment_edge=False the support is extended so that every function of the segment space is the complete
    # BC / RBC function of its coarse edge: it must coincide (up to its orientation sign) with the function of the same coarse
    # edge in the whole-grid space, on every barycentric sub-triangle.
    worst["segment_vs_whole"] = 0.0
    for mname, mesh, closed in [p for p in pool if p[2] and len(set(p[1].D.tolist())) >= 2 and p[1].ne <= 40][:2]:
        grid = M.to_grid(mesh)
        bg, bmesh = bary_mesh_of(M, grid)
        bc_ = np.array([[1 / 3, 0.2, 0.55], [1 / 3, 0.7, 0.15]])
        Xb = np.hstack([bmesh.V[:, bmesh.E[0, e]][:, None] + np.column_stack([bmesh.V[:, bmesh.E[1, e]] - bmesh.V[:, bmesh.E[0, e]],
                                                                              bmesh.V[:, bmesh.E[2, e]] - bmesh.V[:, bmesh.E[0, e]]]) @ bc_ for e in range(bmesh.ne)])
        wb = locate(bmesh, Xb)
        doms5 = sorted(set(mesh.D.tolist()))
        el_edges = np.asarray(grid.element_edges).astype(int)

        def edge_of(rwg_space):
            return [int(el_edges[loc, el]) for (el, loc) in (rwg_space.global2local[j][0] for j in range(rwg_space.global_dof_count))]

        for seg in ([doms5[0]], doms5[: max(2, len(doms5) // 2)]):
            o5 = {"segments": [int(x) for x in seg], "truncate_at_segment_edge": False}
            for kind in ("BC", "RBC"):
                cid = "segment_vs_whole:%s:%s:seg%s" % (mname, kind, list(seg))
                if not ctx.want(cid):
                    continue
                with ctx.guard(cid, "segment_functions:%s" % kind, allow=S.ALLOWED_REJECTIONS):
                    exp5 = S.expected_entities(S.Topo(mesh.V, mesh.E), mesh.D, *KA[kind], o5)
                    if exp5 is None or not exp5[1]:
                        continue
                    whole, part = S.make_space(api, grid, *KA[kind]), S.make_space(api, grid, *KA[kind], **o5)
                    ew, ep = edge_of(api.function_space(grid, "RWG", 0)), edge_of(api.function_space(grid, "RWG", 0, **o5))
                    if len(ep) != part.global_dof_count or len(ew) != whole.global_dof_count:
                        raise RuntimeError("coarse RWG space and %s space have different dof counts" % kind)
                    Fw, Fp = basis_matrix(whole, wb), basis_matrix(part, wb)
                    col = {e: j for j, e in enumerate(ew)}
                    dev5 = 0.0
                    for j, e in enumerate(ep):
                        a, b = Fp[:, j], Fw[:, col[e]]
                        dev5 = max(dev5, float(min(np.abs(a - b).max(), np.abs(a + b).max()) / max(np.abs(b).max(), 1e-300)))
                    worst["segment_vs_whole"] = max(worst["segment_vs_whole"], dev5)
                    ctx.case(cid, {"mesh": mesh.describe(), "space": kind, "opts": S.opts_key(o5), "functions": len(ep), "max_rel_dev": dev5})
                    if dev5 > 1e-12:
                        ctx.violation("segment_functions:%s:differ_from_whole_grid_functions" % kind, "%s: a function of the untruncated segment space differs from the whole-grid %s function of its coarse edge by %.3e"
                                      % (cid, kind, dev5), cid)
    # ---------------------------------------------------------------- (6) the dual / BC functions do not depend on the numbering of the grid
    # The same surface with vertices and elements renumbered and local vertex orders rotated must carry the same functions
    # (each function of one space is +- a function of the other), in particular at borders, where the two poles of a BC
    # function are treated by different code depending on which comes first.
    from checks.C03 import signed_permutation
    worst["renumbering"] = 0.0
    for mname, mesh, closed in pool[: (4 if ctx.quick else len(pool))]:
        if mesh.ne > 40:
            continue
        rng6 = ctx.rng("renumber", mname)
        m2 = M.rotate_local(M.permute_elements(M.permute_vertices(mesh, rng6.permutation(mesh.nv)), rng6.permutation(mesh.ne)), rng6.integers(0, 3, size=mesh.ne))
        gA, gB = M.to_grid(mesh), M.to_grid(m2)
        (_, bmA), (_, bmB) = bary_mesh_of(M, gA), bary_mesh_of(M, gB)
        bc_ = np.array([[1 / 3, 0.2, 0.55], [1 / 3, 0.7, 0.15]])
        Xb = np.hstack([bmA.V[:, bmA.E[0, e]][:, None] + np.column_stack([bmA.V[:, bmA.E[1, e]] - bmA.V[:, bmA.E[0, e]],
                                                                          bmA.V[:, bmA.E[2, e]] - bmA.V[:, bmA.E[0, e]]]) @ bc_ for e in range(bmA.ne)])
        wA, wB = locate(bmA, Xb), locate(bmB, Xb)
        doms6 = sorted(set(mesh.D.tolist()))
        optlist = [{}] + ([{"segments": [int(doms6[0])]}] if len(doms6) >= 2 else [])
        for kind in ("BC", "RBC", "DUAL0", "DUAL1"):
            for o6 in optlist:
                cid = "renumbering:%s:%s:%s" % (mname, kind, S.opts_key(o6))
                if not ctx.want(cid):
                    continue
                with ctx.guard(cid, "renumbering:%s" % kind, allow=S.ALLOWED_REJECTIONS):
                    exp6 = S.expected_entities(S.Topo(mesh.V, mesh.E), mesh.D, *KA[kind], o6)
                    if exp6 is None or not exp6[1]:
                        continue
                    sa, sb = S.make_space(api, gA, *KA[kind], **o6), S.make_space(api, gB, *KA[kind], **o6)
                    if sa.grid.number_of_elements != bmA.ne:
                        continue
                    _, defect, okp = signed_permutation(basis_matrix(sa, wA), basis_matrix(sb, wB))
                    worst["renumbering"] = max(worst["renumbering"], defect if np.isfinite(defect) else 0.0)
                    ctx.case(cid, {"mesh": mesh.describe(), "space": kind, "opts": S.opts_key(o6), "dofs": int(sa.global_dof_count), "defect": defect, "signed_permutation": okp})
                    if not okp or defect > 1e-9 or sa.global_dof_count != sb.global_dof_count:
                        ctx.violation("renumbering:%s:functions_depend_on_numbering" % kind, "%s: the functions on the renumbered grid are not +- the functions on the grid (defect %.3e, %d vs %d dofs)"
                                      % (cid, defect, sa.global_dof_count, sb.global_dof_count), cid)
    ctx.note("worst", worst)
    ctx.note("vertex_valences_seen", sorted(valences))
    partial = ctx.only_case is not None or bool(ctx.args.only)
    ctx.obligation("vertex valences 3..6 seen in the DUAL1 nodal check", partial or {3, 4}.issubset(valences) and (ctx.quick or {3, 4, 5, 6}.issubset(valences)), sorted(valences))
    ctx.finish()


if __name__ == "__main__":
    main()
