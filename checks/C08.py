"""C08 — potentials and far fields satisfy their PDEs, normalisation and asymptotics.

(a) every potential / far-field value equals the closed-form kernel sum over the library's own quadrature nodes (reference
    kernels and reference shape functions from the check), to rounding;
(b) PDE residuals by central differences with steps h and h/2 (Laplace, Helmholtz, modified Helmholtz; curl E = ikH, div H = 0
    hold exactly for the discrete kernel sums; curl H = -ikE and div E = 0 rest on a surface integration by parts that a quadrature
    rule only satisfies up to its own error: decided by convergence in the regular order);
(c) far field = lim r exp(-ikr) potential(r x_hat), by Richardson extrapolation in 1/r with its own error estimate;
(d) translating the grid by t multiplies the far field by exp(-ik x_hat.t).
"""

import numpy as np

from vlib import boot
from vlib.verdict import Ctx

KA = {"DP0": ("DP", 0), "DP1": ("DP", 1), "P1": ("P", 1), "RWG": ("RWG", 0)}
FOUR_PI = 4 * np.pi


def node_data(space, kind, pts_local, w):
    """Nodes y_q (3, N), effective normals (3, N), charge maps: Q (ndof, dim*N) with weights*ie included, Qdiv (ndof, N)."""
    from checks.C07 import test_integration_matrix
    from vlib import refmodel as R

    grid = space.grid
    V = np.asarray(grid.vertices)
    E = np.asarray(grid.elements).astype(int)
    ne, nq = E.shape[1], len(w)
    nm = np.asarray(space.normal_multipliers)
    Y = np.zeros((3, ne * nq))
    Nrm = np.zeros((3, ne * nq))
    for e in range(ne):
        o, J, a, n = R.affine_map(V[:, E[:, e]])
        Y[:, e * nq:(e + 1) * nq] = o[:, None] + J @ pts_local
        Nrm[:, e * nq:(e + 1) * nq] = (nm[e] * n)[:, None]
    Q = test_integration_matrix(space, kind, pts_local, w)
    Qdiv = None
    if kind == "RWG":
        l2g = np.asarray(space.local2global).astype(int)
        mult = np.asarray(space.local_multipliers)
        Qdiv = np.zeros((space.global_dof_count, ne * nq))
        ends = [(0, 1), (2, 0), (1, 2)]
        for e in np.flatnonzero(np.asarray(space.support)):
            P = V[:, E[:, e]]
            for l in range(3):
                L = np.linalg.norm(P[:, ends[l][0]] - P[:, ends[l][1]])
                Qdiv[l2g[e, l], e * nq:(e + 1) * nq] += mult[e, l] * 2 * L * w   # div f * w * ie = (2L/ie) w ie
    return Y, Nrm, Q, Qdiv


def G(x, Y, k):
    d = x[:, None] - Y
    r = np.linalg.norm(d, axis=0)
    g = np.exp(1j * k * r) / (FOUR_PI * r) if k != 0 else 1.0 / (FOUR_PI * r) + 0j
    return g, d, r


def ref_value(kindop, x, Y, Nrm, ch, chdiv, k):
    """Closed-form kernel sum at one point x. k complex (Laplace: 0, modified Helmholtz w: k = i w)."""
    if kindop.startswith("ff_"):
        ph = np.exp(-1j * k * (x @ Y)) / FOUR_PI
        if kindop == "ff_single_layer":
            return np.array([ph @ ch])
        if kindop == "ff_double_layer":
            return np.array([(ph * (-1j * k) * (x @ Nrm)) @ ch])
        N = Y.shape[1]
        chv = ch.reshape(3, N)
        if kindop == "ff_electric_field":
            return 1j * k * (chv @ ph) - x * (ph @ chdiv)
        if kindop == "ff_magnetic_field":
            return 1j * k * np.cross(x, chv @ ph)
    g, d, r = G(x, Y, k)
    gradx = g * (1j * k * r - 1) / r ** 2 * d     # grad_x G, (3, N)
    if kindop == "single_layer":
        return np.array([g @ ch])
    if kindop == "double_layer":
        return np.array([(-np.sum(gradx * Nrm, axis=0)) @ ch])   # n_y . grad_y G = - n_y . grad_x G
    N = Y.shape[1]
    chv = ch.reshape(3, N)
    if kindop == "electric_field":
        return 1j * k * (chv @ g) - (1.0 / (1j * k)) * (gradx @ chdiv)
    if kindop == "magnetic_field":
        return np.sum(np.cross(gradx.T, chv.T), axis=0)
    raise ValueError(kindop)


def main():
    ctx = Ctx("C08")
    ctx.rule = ("(mesh closed/open/segment) x (potential or far-field operator of Laplace / Helmholtz / modified Helmholtz / Maxwell) x (space kind) x "
                "(wavenumber real/complex) x (random real/complex density) x evaluation points: value vs closed-form kernel sum; finite-difference PDE residuals; "
                "far-field limit by Richardson; translation phase. Distinct = (mesh, operator, space, k, relation).")
    ctx.assumptions = ["reference kernels/shape functions are written from the definitions in this module and checks/C07.py",
                       "quadrature nodes are the library's (C12 decides the rule)"]
    boot.boot()
    import bempp_cl.api as api
    from bempp_cl.api.integration.triangle_gauss import rule as tri_rule
    from vlib import meshes as M, monitors as mon, ops as O, spaces as S

    rec = mon.LAUNCH.install()
    if not ctx.worker:
        ctx.spawn_san("checks.C08")
    rng0 = ctx.rng("pool")
    mild = dict(jitter=0.05, strength=0.2, min_angle=20.0)
    pool = [("octa_r1", M.assign_domains(M.distort(M.refine(M.octahedron(), 1), rng0, **mild), rng0, 3, values=[5, 2, 9])),
            ("screen3", M.assign_domains(M.distort(M.screen(3), rng0, **mild), rng0, 2, values=[1, 4]))]
    if not ctx.quick:
        pool += [("cube6", M.distort(M.cube(face_domains=True), rng0, **mild)), ("torus", M.assign_domains(M.distort(M.torus(6, 4), rng0, **mild), rng0, 3, values=[3, 0, 8]))]
    if ctx.worker == "san":
        pool = pool[:1]
    # (family, op, kindop, space kind, wavenumbers)
    kreal, kcplx = 1.7, 1.1 + 0.35j
    cfg = [("laplace", "single_layer", "DP0", [None]), ("laplace", "double_layer", "P1", [None]),
           ("helmholtz", "single_layer", "P1", [kreal, kcplx, 0.8j, 1.2 - 0.3j]), ("helmholtz", "double_layer", "DP1", [kcplx, 1.3j, 0.9 - 0.35j]),
           # (a complex omega is either rejected - "'omega' must be real." - or evaluated for that omega: never for another one)
           ("modified_helmholtz", "single_layer", "P1", [0.9, 0.7 - 0.2j]), ("modified_helmholtz", "double_layer", "DP0", [1.4, 1.3 + 0.4j]),
           ("maxwell", "electric_field", "RWG", [kreal, kcplx]), ("maxwell", "magnetic_field", "RWG", [kcplx]),
           ("ff_helmholtz", "single_layer", "P1", [kreal, kcplx]), ("ff_helmholtz", "double_layer", "P1", [kreal, kcplx]),
           ("ff_maxwell", "electric_field", "RWG", [kreal, kcplx]), ("ff_maxwell", "magnetic_field", "RWG", [kreal])]
    if not ctx.quick and not ctx.worker:
        cfg += [("laplace", "single_layer", "P1", [None]), ("laplace", "double_layer", "DP0", [None]), ("helmholtz", "single_layer", "DP0", [0.3, 4.0 + 0.1j]),
                ("helmholtz", "double_layer", "P1", [kreal, 0.2j + 2.0]), ("maxwell", "magnetic_field", "RWG", [kreal, 0.8 - 0.25j]), ("maxwell", "electric_field", "RWG", [1.1 - 0.2j]), ("ff_maxwell", "magnetic_field", "RWG", [kcplx])]
    nvar = 2 if ctx.quick or ctx.worker else 4
    worst = {}
    for mname, mesh in pool:
        grid = M.to_grid(mesh)
        topo = S.Topo(mesh.V, mesh.E)
        Dm = mesh.diameter()
        c0 = mesh.V.mean(axis=1)
        rngp = ctx.rng(mname, "points")
        # the sanitizer worker and the quick tier use the first 12 of the thorough tier's 40 points (same case id = same data)
        npt = 12 if ctx.quick or ctx.worker else 40
        dirs = rngp.normal(size=(3, 40))
        dirs /= np.linalg.norm(dirs, axis=0)
        radii = Dm * rngp.uniform(0.9, 3.0, size=40)
        dirs, radii = dirs[:, :npt], radii[:npt]
        pts = c0[:, None] + dirs * radii
        for fam, op, kind, ks in cfg:
            for k in ks:
                for vi in range(nvar):
                    cid = "%s:%s.%s:%s:k=%s:v%d" % (mname, fam, op, kind, k, vi)
                    if not ctx.want(cid):
                        continue
                    rng = ctx.rng(cid)
                    opts = (S.draw_opts(rng, mesh, topo, *KA[kind], variant=vi)[0] or {}) if vi else ({"include_boundary_dofs": True} if (not mesh.is_closed_manifold() and kind in ("P1", "RWG")) else {})
                    r = 4 if vi % 2 == 0 else int(rng.choice([2, 3, 5, 6, 7]))
                    if vi % 2 == 1 and "swapped_normals" not in opts:
                        opts["swapped_normals"] = [int(sorted(opts.get("segments") or set(mesh.D.tolist()))[-1])]
                    par = O.params(api, r, 4)
                    is_ff = fam.startswith("ff_")
                    kk = 0.0 if k is None else (1j * k if fam == "modified_helmholtz" else k)
                    kcls = "laplace" if k is None else ("real_k" if np.imag(kk) == 0 else ("imaginary_k" if np.real(kk) == 0 else "complex_k"))
                    with ctx.guard(cid, "potential_value:%s.%s:%s" % (fam, op, kcls), allow=S.ALLOWED_REJECTIONS + (("'omega' must be real.",) if (fam == "modified_helmholtz" and np.imag(k) != 0) else ())):
                        sp = S.make_space(api, grid, *KA[kind], **opts)
                        n = sp.global_dof_count
                        cplx = (vi % 2 == 1) or kind == "RWG"
                        c = rng.normal(size=n) + (1j * rng.normal(size=n) if cplx else 0)
                        gf = api.GridFunction(sp, coefficients=c)
                        X = dirs if is_ff else pts
                        if is_ff:
                            pot = O.far_field(api, fam[3:], op, sp, X, k, parameters=par)
                        else:
                            pot = O.potential(api, fam, op, sp, X, k, parameters=par)
                        val = np.asarray(pot.evaluate(gf))
                        pl, w = tri_rule(r)
                        Y, Nrm, Q, Qdiv = node_data(sp, kind, np.asarray(pl), np.asarray(w))
                        ch = Q.T @ c
                        chdiv = Qdiv.T @ c if Qdiv is not None else None
                        kop = ("ff_" + op) if is_ff else op
                        ref = np.array([ref_value(kop, X[:, i], Y, Nrm, ch, chdiv, kk) for i in range(X.shape[1])]).T
                        dev = O.rel(val, ref)
                        key = "%s.%s" % (fam, op)
                        if not (is_ff and kcls == "complex_k"):
                            worst[key] = max(worst.get(key, 0.0), dev)
                        ctx.diff("val:%s" % cid, np.asarray(val)[..., :12], scale=float(np.abs(ref).max()))
                        ctx.case(cid, {"mesh": mname, "op": key, "space": kind, "opts": S.opts_key(opts), "k": k, "order": r, "complex_density": bool(cplx), "rel_dev": dev})
                        if val.shape != ref.shape:
                            ctx.violation("potential_value:%s:shape" % key, "%s: %s vs %s" % (cid, val.shape, ref.shape), cid)
                        elif not np.all(np.isfinite(val)) or dev > 1e-11:
                            ctx.violation("potential_value:%s:%s:mismatch" % (key, kcls), "%s: ||value - kernel sum|| / ||.|| = %.3e" % (cid, dev), cid)
                    for mm_, msg in rec.drain():
                        ctx.violation(mm_, "%s: %s" % (cid, msg), cid)
        ctx.lap("values")
        if ctx.worker:
            continue

        # ---------------------------------------------------------------- (b) PDE residuals by finite differences
        nfd = 4 if ctx.quick else 10
        xs = pts[:, :nfd]
        dist = np.array([np.linalg.norm(xs[:, i] - c0) - 0.6 * Dm for i in range(nfd)])
        inc = {} if mesh.is_closed_manifold() else {"include_boundary_dofs": True}
        p1 = api.function_space(grid, "P", 1, **inc)
        dp0 = api.function_space(grid, "DP", 0)
        rwg = api.function_space(grid, "RWG", 0, **inc)
        rngf = ctx.rng(mname, "fd")
        gf1 = api.GridFunction(p1, coefficients=rngf.normal(size=p1.global_dof_count))
        gf0 = api.GridFunction(dp0, coefficients=rngf.normal(size=dp0.global_dof_count) + 1j * rngf.normal(size=dp0.global_dof_count))
        gfr = api.GridFunction(rwg, coefficients=rngf.normal(size=rwg.global_dof_count) + 1j * rngf.normal(size=rwg.global_dof_count))

        def stencil(h):
            P = [xs]
            for a in range(3):
                for sgn in (1, -1):
                    d = np.zeros((3, 1))
                    d[a] = sgn
                    P.append(xs + d * h[None, :])
            return np.hstack(P)

        def laplacian(evalfun, h):
            U = evalfun(stencil(h))           # (dim, 7*nfd)
            u0 = U[:, :nfd]
            lap = -6 * u0
            for j in range(6):
                lap = lap + U[:, (1 + j) * nfd:(2 + j) * nfd]
            return lap / h[None, :] ** 2, u0

        scal = [("laplace", "single_layer", dp0, gf0, None, 0.0), ("laplace", "double_layer", p1, gf1, None, 0.0),
                ("helmholtz", "single_layer", p1, gf1, kreal, kreal ** 2), ("helmholtz", "double_layer", p1, gf1, kcplx, kcplx ** 2),
                ("modified_helmholtz", "single_layer", dp0, gf0, 0.9, -0.81), ("modified_helmholtz", "double_layer", p1, gf1, 1.4, -1.96)]
        for fam, op, sp, gf, k, k2 in (scal[::2] + scal[3:4] if ctx.quick else scal):
            for r in ((4,) if ctx.quick else (3, 6)):
                cid = "%s:pde:%s.%s:k=%s:r%d" % (mname, fam, op, k, r)
                if not ctx.want(cid):
                    continue
                with ctx.guard(cid, "pde:%s.%s" % (fam, op)):
                    par = O.params(api, r, 4)
                    ev = lambda P, _f=fam, _o=op, _s=sp, _g=gf, _k=k, _p=par: np.asarray(O.potential(api, _f, _o, _s, P, _k, parameters=_p).evaluate(_g))  # noqa: E731
                    # "to finite-difference accuracy": the residual of the 7-point stencil is c h^2 + O(h^4) for a true solution, so the
                    # Richardson combination (4 R(h/2) - R(h)) / 3 removes it; a residual that does not vanish with h survives.
                    res = []
                    for hf in (2e-2, 1e-2):
                        h = hf * dist
                        lap, u0 = laplacian(ev, h)
                        res.append((lap + k2 * u0).ravel() / (np.abs(u0).ravel() / dist ** 2 + 1e-300))
                    ex = (4 * res[1] - res[0]) / 3.0
                    r0_, rex = float(np.abs(res[0]).max()), float(np.abs(ex).max())
                    ctx.case(cid, {"mesh": mname, "op": fam + "." + op, "k": k, "order": r, "residual_h": r0_, "residual_h/2": float(np.abs(res[1]).max()), "richardson_extrapolated": rex})
                    if not np.isfinite(rex) or rex > 0.02 * r0_ + 1e-7:
                        ctx.violation("pde:%s.%s:residual" % (fam, op), "%s: relative FD residual %.3e (h), %.3e (h/2), extrapolated to h=0: %.3e" % (cid, r0_, float(np.abs(res[1]).max()), rex), cid)

        # Maxwell: curl E = ik H, div H = 0 hold exactly for the discrete sums (checked by Richardson in h at every order);
        # curl H = -ik E and div E = 0 rest on a surface integration by parts (needs zero normal flux at a boundary: the
        # default RWG space without boundary dofs) that a quadrature rule only satisfies up to its own error: the
        # h-extrapolated floor must fall as the regular order is raised.
        rwg0 = api.function_space(grid, "RWG", 0)
        gfr0 = api.GridFunction(rwg0, coefficients=rngf.normal(size=rwg0.global_dof_count) + 1j * rngf.normal(size=rwg0.global_dof_count))
        for k in ([kcplx] if ctx.quick else [kreal, kcplx]):
            cid = "%s:pde:maxwell:k=%s" % (mname, k)
            if not ctx.want(cid):
                continue
            with ctx.guard(cid, "pde:maxwell"):
                floors = []
                orders = (4, 8, 12) if ctx.quick else (4, 8, 12, 16)
                for r in orders:
                    par = O.params(api, r, 4)
                    evE = lambda P, _p=par: np.asarray(O.potential(api, "maxwell", "electric_field", rwg0, P, k, parameters=_p).evaluate(gfr0))  # noqa: E731
                    evH = lambda P, _p=par: np.asarray(O.potential(api, "maxwell", "magnetic_field", rwg0, P, k, parameters=_p).evaluate(gfr0))  # noqa: E731
                    out = {}
                    for hf in (2e-2, 1e-2):
                        h = hf * dist
                        SE, SH = evE(stencil(h)), evH(stencil(h))

                        def jac(U):
                            Jm = np.zeros((3, 3, nfd), dtype=complex)   # Jm[c, a] = d U_c / d x_a
                            for a in range(3):
                                Jm[:, a, :] = (U[:, (1 + 2 * a) * nfd:(2 + 2 * a) * nfd] - U[:, (2 + 2 * a) * nfd:(3 + 2 * a) * nfd]) / (2 * h[None, :])
                            return Jm

                        JE, JH = jac(SE), jac(SH)
                        curl = lambda Jm: np.array([Jm[2, 1] - Jm[1, 2], Jm[0, 2] - Jm[2, 0], Jm[1, 0] - Jm[0, 1]])  # noqa: E731
                        E0, H0 = SE[:, :nfd], SH[:, :nfd]
                        sE = np.linalg.norm(E0, axis=0) + 1e-300
                        sH = np.linalg.norm(H0, axis=0) + 1e-300
                        out[hf] = {"curlE-ikH": (curl(JE) - 1j * k * H0) / (abs(k) * sH), "divH": (JH[0, 0] + JH[1, 1] + JH[2, 2]) / (sH / dist),
                                   "curlH+ikE": (curl(JH) + 1j * k * E0) / (abs(k) * sE), "divE": (JE[0, 0] + JE[1, 1] + JE[2, 2]) / (sE / dist)}
                    summ = {}
                    for nm in out[1e-2]:
                        ex = (4 * out[1e-2][nm] - out[2e-2][nm]) / 3.0
                        summ[nm] = {"h": float(np.abs(out[2e-2][nm]).max()), "h/2": float(np.abs(out[1e-2][nm]).max()), "extrapolated": float(np.abs(ex).max())}
                    floors.append(summ)
                    for nm in ("curlE-ikH", "divH"):
                        if not np.isfinite(summ[nm]["extrapolated"]) or summ[nm]["extrapolated"] > 0.02 * summ[nm]["h"] + 1e-7:
                            ctx.violation("pde:maxwell:%s" % nm, "%s order %d: relative FD residual %s" % (cid, r, summ[nm]), cid)
                ctx.case(cid, {"mesh": mname, "k": k, "orders": list(orders), "residuals": floors})
                for nm in ("curlH+ikE", "divE"):
                    seq = [f[nm]["extrapolated"] for f in floors]
                    # the Richardson-extrapolated value still carries the O(h^4) stencil error; its size is measured on the two
                    # identities that hold exactly for the discrete sums
                    fd_level = max(floors[-1]["curlE-ikH"]["extrapolated"], floors[-1]["divH"]["extrapolated"], 1e-7)
                    if not (seq[-1] <= max(seq[0] / 30, 20 * fd_level)):
                        ctx.violation("pde:maxwell:%s:no_convergence" % nm, "%s: h-extrapolated residual by regular order %s: %s (stencil error level %.1e)"
                                      % (cid, list(orders), ["%.2e" % s_ for s_ in seq], fd_level), cid)
        ctx.lap("pde")

        # ---------------------------------------------------------------- (c) far-field limit, (d) translation phase
        xh = dirs[:, :(4 if ctx.quick else 10)]
        for fam, op, sp, gf, ks in (("helmholtz", "single_layer", p1, gf1, [kreal, kcplx]), ("helmholtz", "double_layer", p1, gf1, [kreal]),
                                    ("maxwell", "electric_field", rwg, gfr, [kreal, kcplx]), ("maxwell", "magnetic_field", rwg, gfr, [kreal])):
            for k in ks:
                cid = "%s:farfield_limit:%s.%s:k=%s" % (mname, fam, op, k)
                if not ctx.want(cid):
                    continue
                kcls = "real_k" if np.imag(k) == 0 else "complex_k"
                with ctx.guard(cid, "far_field_limit:%s.%s:%s" % (fam, op, kcls)):
                    par = O.params(api, 4, 4)
                    ff = np.asarray(O.far_field(api, fam, op, sp, xh, k, parameters=par).evaluate(gf))
                    r0 = (40.0 if np.imag(k) == 0 else min(40.0, 12.0 / (np.imag(k) * Dm))) * Dm
                    F = []
                    for rr in (r0, 2 * r0, 4 * r0):
                        u = np.asarray(O.potential(api, fam, op, sp, c0[:, None] * 0 + xh * rr, k, parameters=par).evaluate(gf))
                        F.append(rr * np.exp(-1j * k * rr) * u)
                    ex3 = (8 * F[2] - 6 * F[1] + F[0]) / 3.0
                    ex2 = 2 * F[2] - F[1]
                    err_est = float(np.abs(ex3 - ex2).max())
                    dev = float(np.abs(ff - ex3).max())
                    sc = float(np.abs(ex3).max())
                    ctx.case(cid, {"mesh": mname, "op": fam + "." + op, "k": k, "r0/D": r0 / Dm, "abs_dev": dev, "richardson_error_estimate": err_est, "scale": sc})
                    if dev > 5 * err_est + 1e-7 * sc:
                        ctx.violation("far_field_limit:%s.%s:%s" % (fam, op, kcls), "%s: |far field - lim r e^{-ikr} u| = %.3e (extrapolation error estimate %.1e, scale %.2e)" % (cid, dev, err_est, sc), cid)
                    # (d) translation
                    t = ctx.rng(cid, "t").normal(size=3) * Dm
                    m2 = mesh.copy()
                    m2.V = mesh.V + t[:, None]
                    g2 = M.to_grid(m2)
                    sp2 = api.function_space(g2, *( ("P", 1) if sp is p1 else ("RWG", 0)), **inc)
                    gf2 = api.GridFunction(sp2, coefficients=gf.coefficients)
                    ff2 = np.asarray(O.far_field(api, fam, op, sp2, xh, k, parameters=par).evaluate(gf2))
                    want = ff * np.exp(-1j * k * (xh.T @ t))[None, :]
                    dv = float(np.abs(ff2 - want).max() / max(np.abs(want).max(), 1e-300))
                    if dv > 1e-10 * (1 + abs(k) * np.linalg.norm(t)) * 10:
                        ctx.violation("far_field_translation:%s.%s:%s" % (fam, op, kcls), "%s: translated far field differs from exp(-ik x.t) * far field by %.3e (relative)" % (cid, dv), cid)
        ctx.lap("far_field")
    ctx.note("worst_rel_dev_value_vs_kernel_sum", worst)
    ctx.note("launch_recorder", rec.summary())
    ctx.finish()


if __name__ == "__main__":
    main()
