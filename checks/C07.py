"""C07 — boundary operators between disjoint grids equal Galerkin-tested potentials.

For disjoint grids A (trial) and B (test) the matrix of op(domain on A, ., dual on B) must equal
   Q_B  *  [ Pot[e_j](x_q) ]_{q,j}
where Pot is the library's *potential operator* of the j-th trial basis function evaluated at
grid_B.map_to_point_cloud(r) (which pins the point ordering) and Q_B integrates against the test functions with the
reference model's own shape functions (vlib.refmodel) and the library's regular rule: to rounding for SL, DL and the
Maxwell magnetic field (tangential trace F x n against SNC); up to quadrature error (convergence in r) for the electric field.
The launch recorder must show grids_identical=False and no singular launch.
"""

import numpy as np

from vlib import boot
from vlib.verdict import Ctx

TOL = 1e-11


def test_integration_matrix(space, kind, pts_local, weights, trace=None):
    """Q (ndof, dim*npts_total): integrates a field given at the point cloud (element-major, then quadrature point;
    component-major blocks for vector fields) against the test basis. Shape functions from the reference model."""
    from vlib import refmodel as R

    grid = space.grid
    V = np.asarray(grid.vertices)
    E = np.asarray(grid.elements).astype(int)
    ne = E.shape[1]
    nq = len(weights)
    l2g = np.asarray(space.local2global).astype(int)
    mult = np.asarray(space.local_multipliers)
    nm = np.asarray(space.normal_multipliers)
    sup = np.asarray(space.support).astype(bool)
    n = space.global_dof_count
    dim = 1 if kind in ("DP0", "DP1", "P1") else 3
    Q = np.zeros((n, dim * ne * nq), dtype=float)
    opp = [2, 1, 0]
    ends = [(0, 1), (2, 0), (1, 2)]
    for e in np.flatnonzero(sup):
        P = V[:, E[:, e]]
        o, J, area, nrm = R.affine_map(P)
        ie = 2 * area
        x = o[:, None] + J @ pts_local
        cols = e * nq + np.arange(nq)
        if kind == "DP0":
            Q[l2g[e, 0], cols] += mult[e, 0] * weights * ie
        elif kind in ("DP1", "P1"):
            ph = R.shape_p1(pts_local)[0]
            for l in range(3):
                Q[l2g[e, l], cols] += mult[e, l] * ph[l] * weights * ie
        else:
            for l in range(3):
                L = np.linalg.norm(P[:, ends[l][0]] - P[:, ends[l][1]])
                f = (L / ie) * (x - P[:, [opp[l]]])  # RWG function (3, nq)
                if kind == "SNC":
                    f = np.cross(nm[e] * nrm, f.T).T
                # trace pairing: integral of psi . (F x n) = integral of F . (n x psi)
                if trace == "cross_n":
                    f = np.cross(nm[e] * nrm, f.T).T
                for c in range(3):
                    Q[l2g[e, l], c * ne * nq + cols] += mult[e, l] * f[c] * weights * ie
    return Q


def potential_matrix(api, O, family, op, space, pts, k, par):
    """(dim*npts, ndof): potential of every trial basis function at the points (component-major blocks)."""
    n = space.global_dof_count
    cols = []
    pot = O.potential(api, family, op, space, pts, k, parameters=par)
    for j in range(n):
        c = np.zeros(n)
        c[j] = 1.0
        v = np.asarray(pot.evaluate(api.GridFunction(space, coefficients=c)))
        cols.append(v.reshape(-1))  # (dim, npts) row-major = component-major blocks
    return np.array(cols).T


def main():
    ctx = Ctx("C07")
    ctx.rule = ("pairs of disjoint grids (closed/closed, closed/screen, screen/screen; different sizes, separations 0.2..10 diameters) x operator "
                "(SL, DL of Laplace/Helmholtz/modified Helmholtz; Maxwell H and E) x space kinds (incl. segments) x regular order: boundary matrix vs "
                "reference-tested library potential. Distinct = (grid pair, operator, spaces, k, order).")
    ctx.assumptions = ["test-side integration uses reference shape functions from vlib.refmodel and the library's regular nodes/weights (C12 decides the rule itself)",
                       "electric field: decided by convergence in the regular order (the potential integrates by parts differently)"]
    boot.boot()
    import bempp_cl.api as api
    from bempp_cl.api.integration.triangle_gauss import rule as tri_rule
    from vlib import meshes as M, monitors as mon, ops as O, spaces as S

    rec = mon.LAUNCH.install()
    rec.keep_log = True
    if not ctx.worker:
        ctx.spawn_san("checks.C07")
    rng0 = ctx.rng("pool")
    mild = dict(jitter=0.05, strength=0.2, min_angle=20.0)

    def place(m, shift, s=1.0):
        out = M.scale(m, s)
        out.V = M.random_rotation(rng0) @ out.V + np.asarray(shift, float).reshape(3, 1)
        return out

    A1 = M.assign_domains(M.distort(M.refine(M.octahedron(), 1), rng0, **mild), rng0, 2, values=[3, 8])     # 32 elements, closed
    B1 = place(M.distort(M.cube(face_domains=True), rng0, **mild), (3.0, 0.4, -0.2), 0.8)                      # 12 elements, closed
    B2 = place(M.assign_domains(M.distort(M.screen(3), rng0, **mild), rng0, 2, values=[1, 5]), (0.3, 0.2, 1.4), 1.5)  # screen near A1 (0.2 D)
    A2 = place(M.distort(M.screen(2), rng0, **mild), (10.0, -20.0, 5.0), 2.0)
    def cloud(m):
        P = m.V[:, m.E]   # (3, 3, ne)
        return np.hstack([m.V, P.mean(axis=1), 0.5 * (P[:, 0] + P[:, 1]), 0.5 * (P[:, 1] + P[:, 2]), 0.5 * (P[:, 2] + P[:, 0])])

    def separated(a, b, frac=0.25):
        """The property speaks of DISJOINT grids: after the random rotation a screen may cut through its neighbour (seen at
        VERIF_SEED=3: O(1) quadrature error on intersecting elements, a false alarm of the convergence oracle). Move `b`
        away from `a` along the line of centres until the sampled distance is at least frac x the smaller diameter."""
        dmin = frac * min(a.diameter(), b.diameter())
        direction = b.V.mean(axis=1) - a.V.mean(axis=1)
        direction = direction / max(np.linalg.norm(direction), 1e-300)
        for _ in range(60):
            ca, cb = cloud(a), cloud(b)
            dist = np.sqrt(((ca[:, :, None] - cb[:, None, :]) ** 2).sum(axis=0)).min()
            if dist >= dmin:
                break
            b = b.copy(b.name)
            b.V = b.V + (0.5 * dmin) * direction[:, None]
        return b

    B1, B2 = separated(A1, B1), separated(A1, B2)
    pairs = [("octa|cube", A1, B1), ("octa|screen_near", A1, B2), ("screen|screen_far", A2, B2)]
    if not ctx.quick:
        pairs += [("cube|octa", B1, A1), ("torus|octa", place(M.distort(M.torus(6, 4), rng0, **mild), (0, 0, 4.0)), A1),
                  ("screen|cube", B2, separated(B2, place(M.cube(face_domains=True), (-2.0, 0.5, 0.3), 0.6)))]
    if ctx.worker == "san":
        pairs = pairs[:2]
    scal = [("laplace", "single_layer", None), ("laplace", "double_layer", None), ("helmholtz", "single_layer", 1.4 + 0.3j), ("helmholtz", "double_layer", 0.9),
            ("modified_helmholtz", "single_layer", 0.8)]
    if not ctx.quick:
        scal += [("modified_helmholtz", "double_layer", 1.6), ("helmholtz", "single_layer", 2.0), ("helmholtz", "double_layer", 0.5 + 0.5j)]
    trial_kinds = {"single_layer": ["DP0", "P1", "DP1"], "double_layer": ["P1", "DP1", "DP0"]}
    test_kinds = ["P1", "DP0", "DP1"]
    KA = {"DP0": ("DP", 0), "DP1": ("DP", 1), "P1": ("P", 1), "RWG": ("RWG", 0), "SNC": ("SNC", 0)}
    worst = {}
    nvar = 2 if ctx.quick or ctx.worker else 6
    for pname, mA, mB in pairs:
        gA, gB = M.to_grid(mA), M.to_grid(mB)
        for fam, op, k in scal:
            for vi in range(nvar):
                cid = "%s:%s.%s:k=%s:v%d" % (pname, fam, op, k, vi)
                if not ctx.want(cid):
                    continue
                rng = ctx.rng(pname, fam, op, vi)
                tk = trial_kinds[op][vi % 3] if not ctx.quick else trial_kinds[op][vi % 2]
                sk = test_kinds[(vi + (1 if op == "double_layer" else 0)) % (3 if not ctx.quick else 2)]
                optsT = S.draw_opts(rng, mA, S.Topo(mA.V, mA.E), *KA[tk], variant=vi)[0] or {}
                optsS = S.draw_opts(rng, mB, S.Topo(mB.V, mB.E), *KA[sk], variant=vi + 1)[0] or {}
                # swapped-normal flags that differ between the trial and the test space (natural on disjoint grids)
                for o in (optsT, optsS):
                    o.pop("swapped_normals", None)
                if vi % 2 == 1:
                    optsT["swapped_normals"] = [int(sorted(optsT.get("segments") or set(mA.D.tolist()))[-1])]
                elif vi % 4 == 2:
                    optsS["swapped_normals"] = [int(sorted(optsS.get("segments") or set(mB.D.tolist()))[0])]
                r = int(rng.integers(2, 7))
                par = O.params(api, r, 4)
                with ctx.guard(cid, "disjoint:%s.%s" % (fam, op), allow=S.ALLOWED_REJECTIONS):
                    okay = True
                    for (mm_, kk, oo) in ((mA, tk, optsT), (mB, sk, optsS)):
                        exp = S.expected_entities(S.Topo(mm_.V, mm_.E), mm_.D, *KA[kk], oo)
                        if exp is None or len(exp[1]) == 0:
                            okay = False
                    if not okay:
                        ctx.count("skipped_empty_selection")
                        continue
                    trial = S.make_space(api, gA, *KA[tk], **optsT)
                    test = S.make_space(api, gB, *KA[sk], **optsS)
                    rec.log.clear()
                    Amat = O.dense(O.boundary(api, fam, op, trial, test, test, k, parameters=par))
                    log = list(rec.log)
                    pts_local, w = tri_rule(r)
                    cloud = gB.map_to_point_cloud(r).T  # (3, npts)
                    Pm = potential_matrix(api, O, fam, op, trial, cloud, k, par)
                    Q = test_integration_matrix(test, sk, np.asarray(pts_local), np.asarray(w))
                    ref = Q @ Pm
                    dev = O.rel(Amat, ref)
                    worst[fam + "." + op] = max(worst.get(fam + "." + op, 0.0), dev)
                    ctx.diff("A:%s" % cid, Amat, scale=O.frob(Amat) / max(1.0, np.sqrt(Amat.size)))
                    ctx.case(cid, {"pair": pname, "op": fam + "." + op, "k": k, "order": r, "trial": [tk, S.opts_key(optsT)], "test": [sk, S.opts_key(optsS)],
                                   "shape": list(Amat.shape), "rel_dev": dev})
                    if Amat.shape != ref.shape:
                        ctx.violation("disjoint:shape:%s.%s" % (fam, op), "%s: %s vs %s" % (cid, Amat.shape, ref.shape), cid)
                    elif not np.all(np.isfinite(Amat)) or dev > TOL:
                        ctx.violation("disjoint:mismatch:%s.%s" % (fam, op), "%s: ||A - Q*Pot|| / ||A|| = %.3e (trial %s, test %s, order %d)" % (cid, dev, tk, sk, r), cid)
                    for ent in log:
                        if "grids_identical" in ent and ent["grids_identical"]:
                            ctx.violation("disjoint:grids_identical_flag", "%s: a regular launch claims identical grids" % cid, cid)
                        if "pairs" in ent and ent["pairs"] > 0:
                            ctx.violation("disjoint:singular_launch", "%s: a singular kernel was launched with %d pairs" % (cid, ent["pairs"]), cid)
                for mm, msg in rec.drain():
                    ctx.violation(mm, "%s: %s" % (cid, msg), cid)
        # ------------------------------------------------------------ Maxwell
        for vi in range(2 if ctx.quick or ctx.worker else 3):
            for opname in ("magnetic_field", "electric_field"):
                k = [1.1, 0.7 + 0.4j, 1.3 - 0.5j][vi]
                if (ctx.quick or ctx.worker) and vi == 1 and opname == "electric_field":
                    continue   # quick: the complex wavenumber on the one-order identity only (the E ladder costs four assemblies)
                cid = "%s:maxwell.%s:k=%s:v%d" % (pname, opname, k, vi)
                if not ctx.want(cid):
                    continue
                rng = ctx.rng(pname, opname, vi)
                optsT = S.draw_opts(rng, mA, S.Topo(mA.V, mA.E), "RWG", 0, variant=vi * 2)[0] or {}
                optsS = S.draw_opts(rng, mB, S.Topo(mB.V, mB.E), "SNC", 0, variant=vi * 2 + (1 if vi else 0))[0] or {}
                if opname == "electric_field":
                    # the tested potential differs from the bilinear form by the boundary term oint (psi.nu) S(div f): the identity
                    # presupposes test functions without normal flux through the boundary of their support (no half functions)
                    optsS = dict(optsS, include_boundary_dofs=False)
                    optsS.pop("truncate_at_segment_edge", None)
                with ctx.guard(cid, "disjoint:maxwell." + opname, allow=S.ALLOWED_REJECTIONS):
                    okay = True
                    for (mm_, kk, oo) in ((mA, "RWG", optsT), (mB, "SNC", optsS)):
                        exp = S.expected_entities(S.Topo(mm_.V, mm_.E), mm_.D, kk, 0, oo)
                        if exp is None or len(exp[1]) == 0:
                            okay = False
                    if not okay:
                        ctx.count("skipped_empty_selection")
                        continue
                    rwg = S.make_space(api, gA, "RWG", 0, **optsT)
                    snc = S.make_space(api, gB, "SNC", 0, **optsS)
                    orders = [3] if opname == "magnetic_field" else [2, 4, 6, 8]
                    devs = []
                    for r in orders:
                        par = O.params(api, r, 4)
                        Amat = O.dense(O.boundary(api, "maxwell", opname, rwg, rwg, snc, k, parameters=par))
                        pts_local, w = tri_rule(r)
                        cloud = gB.map_to_point_cloud(r).T
                        Pm = potential_matrix(api, O, "maxwell", opname, rwg, cloud, k, par)
                        Q = test_integration_matrix(snc, "SNC", np.asarray(pts_local), np.asarray(w), trace="cross_n")
                        devs.append(O.rel(Amat, Q @ Pm))
                    ctx.case(cid, {"pair": pname, "op": "maxwell." + opname, "k": k, "orders": orders, "rel_dev": devs, "trial": S.opts_key(optsT), "test": S.opts_key(optsS)})
                    worst["maxwell." + opname] = max(worst.get("maxwell." + opname, 0.0), devs[-1])
                    if opname == "magnetic_field":
                        ctx.diff("H:%s" % cid, Amat, scale=O.frob(Amat) / max(1.0, np.sqrt(Amat.size)))
                        if not np.isfinite(devs[0]) or devs[0] > TOL:
                            ctx.violation("disjoint:mismatch:maxwell.magnetic_field", "%s: ||H - Q*(Pot x n)|| / ||H|| = %.3e" % (cid, devs[0]), cid)
                    else:
                        top = devs[-1]
                        if not np.isfinite(top) or top > 1e-4 or (top > devs[0] / 30 and top > 1e-10):
                            ctx.violation("disjoint:no_convergence:maxwell.electric_field", "%s: relative difference by regular order %s: %s" % (cid, orders, ["%.2e" % d for d in devs]), cid)
                for mm, msg in rec.drain():
                    ctx.violation(mm, "%s: %s" % (cid, msg), cid)
    ctx.note("worst_rel_dev", worst)
    ctx.note("launch_recorder", rec.summary())
    partial = ctx.only_case is not None or bool(ctx.args.only) or bool(ctx.worker)
    ctx.obligation("regular launches between different grids observed, none singular", partial or rec.regular_launches > 0, rec.summary()["launches"])
    ctx.finish()


if __name__ == "__main__":
    main()
