"""C13 — sparse operators, projections and integrals are exact L2 quantities.

Oracle (reference model, built from the vertex coordinates of the grid a space lives on):
   M_ref[i, j] = sum_e  int_e  psi_i . phi_j      (collapsed Gauss rule of the check, exact to degree 6)
with the shape functions written here from their definitions (constant, barycentric hat, RWG = L/(2A) (x - p_opp),
SNC = n x RWG) and scattered through the space's own DOF maps (local2global, local_multipliers, normal_multipliers,
support, dof_transformation).  Against it:
  * identity(domain, ., dual).weak_form() for every library order >= the degree of the product (1e-12, Frobenius);
    symmetric + Cholesky for equal spaces; entries summing to the area for partition-of-unity bases;
  * laplace_beltrami = sum_e A_e grad psi_i . grad phi_j (surface gradients J (J^T J)^-1 grad_ref); symmetric, PSD,
    annihilates constants;
  * GridFunction(space, fun=callable) for callables that lie in the space (all 12 callable styles:
    real/complex x jit/non-jit/vectorised x parameterised or not): projections = M_ref c and coefficients = c (1e-11);
  * integrate, l2_norm, projections(dual), evaluate, evaluate_on_vertices, evaluate_on_element_centers of
    GridFunction(space, coefficients=c) vs direct quadrature / evaluation of sum_j c_j phi_j;
  * MultiplicationOperator (component / inner) vs the reference weighted mass matrix;
  * barycentric pairs (P1/DUAL0, RWG/RBC, SNC/BC, BC/BC ...) with the same reference evaluated on the barycentric
    grid through the spaces' dof_transformation, order independence and the rotation identities.
Meshes have non-uniform element sizes (area spread >= 4x is a coverage obligation).

Processes: the wall time is Numba compilation, so the cases on edge spaces run in a second process (--worker vec) beside the
scalar ones, and a reduced sub-set of both runs in the sanitizer build (--worker san; bounds-checked serial kernels, results
compared with the production build to 1e-10). The quick tier leaves the SNC mass matrices, two mixed kernel specialisations and
the barycentric pairs to the thorough tier (see the comments at `scalar_pairs`).
"""

import numpy as np

from vlib import boot
from vlib.verdict import Ctx

TOL_M = 1e-12   # matrices, integrals, evaluations (relative)
TOL_C = 1e-11   # coefficients recovered through the mass-matrix solve

KA = {"DP0": ("DP", 0), "DP1": ("DP", 1), "P1": ("P", 1), "RWG": ("RWG", 0), "SNC": ("SNC", 0),
      "DUAL0": ("DUAL", 0), "DUAL1": ("DUAL", 1), "BC": ("BC", 0), "RBC": ("RBC", 0)}
REFKIND = {"DP0": "p0", "DP1": "p1", "P1": "p1", "RWG": "rwg", "SNC": "snc", "DUAL0": "p0", "DUAL1": "p1", "BC": "rwg", "RBC": "snc"}
NSHAPE = {"p0": 1, "p1": 3, "rwg": 3, "snc": 3}
DIM = {"p0": 1, "p1": 1, "rwg": 3, "snc": 3}
DEG = {"p0": 0, "p1": 1, "rwg": 1, "snc": 1}
SCALAR = ("DP0", "DP1", "P1")
VECTOR = ("RWG", "SNC")
OPP = [2, 1, 0]                    # vertex opposite to local edge l; edges: (v0,v1), (v2,v0), (v1,v2)
ENDS = [(0, 1), (2, 0), (1, 2)]
P1_GRAD_REF = np.array([[-1.0, 1.0, 0.0], [-1.0, 0.0, 1.0]])  # (d/dxi, shape function)


# ----------------------------------------------------------------------------- reference model


class Geo:
    """Per-element affine geometry of a triangulation, from the vertex coordinates only."""

    def __init__(self, V, E):
        self.V = np.asarray(V, float)
        self.E = np.asarray(E).astype(np.int64)
        self.ne = self.E.shape[1]
        P = self.V[:, self.E]                      # (3, local vertex, element)
        self.P = np.transpose(P, (2, 0, 1))        # (element, 3, local vertex)
        a = self.P[:, :, 1] - self.P[:, :, 0]
        b = self.P[:, :, 2] - self.P[:, :, 0]
        cr = np.cross(a, b)
        self.ie = np.linalg.norm(cr, axis=1)
        self.area = 0.5 * self.ie
        self.nrm = cr / self.ie[:, None]
        self.J = np.stack([a, b], axis=2)          # (element, 3, 2)
        self.L = np.stack([np.linalg.norm(self.P[:, :, ENDS[l][0]] - self.P[:, :, ENDS[l][1]], axis=1) for l in range(3)], axis=1)

    def x(self, e, pts):
        return self.P[e][:, [0]] + self.J[e] @ pts

    def p1_grads(self, e):
        """(3, 3): column l = surface gradient of the hat function of local vertex l."""
        J = self.J[e]
        return J @ np.linalg.inv(J.T @ J) @ P1_GRAD_REF


class RefSpace:
    """A function space seen by the reference model: reference shape functions + the space's DOF maps."""

    def __init__(self, space, kind, geo):
        self.space = space
        self.kind = kind
        self.rk = REFKIND[kind]
        self.geo = geo
        self.ns = NSHAPE[self.rk]
        self.dim = DIM[self.rk]
        ne = geo.ne
        l2g = np.asarray(space.local2global).astype(np.int64)
        mult = np.asarray(space.local_multipliers).astype(float)
        assert l2g.shape == (ne, self.ns) and mult.shape == (ne, self.ns), (l2g.shape, mult.shape, ne, self.ns)
        self.nm = np.asarray(space.normal_multipliers).astype(float)
        self.sup = np.asarray(space.support).astype(bool)
        self.l2g, self.mult = l2g, mult
        gdc = int(space.grid_dof_count)
        T = np.zeros((ne * self.ns, gdc))
        els = np.flatnonzero(self.sup)
        rows = (self.ns * els[:, None] + np.arange(self.ns)[None, :]).ravel()
        np.add.at(T, (rows, l2g[els].ravel()), mult[els].ravel())
        Dt = space.dof_transformation
        Dt = Dt.toarray() if hasattr(Dt, "toarray") else np.asarray(Dt)
        self.T = T @ Dt
        self.ndof = self.T.shape[1]

    def rows(self, e):
        return slice(self.ns * e, self.ns * (e + 1))

    def basis(self, e, pts):
        """Reference shape functions on element e (no multipliers): (dim, nshape, npts)."""
        g = self.geo
        n = pts.shape[1]
        if self.rk == "p0":
            return np.ones((1, 1, n))
        if self.rk == "p1":
            return np.array([[1 - pts[0] - pts[1], pts[0], pts[1]]])
        x = g.x(e, pts)
        out = np.empty((3, 3, n))
        for l in range(3):
            f = (g.L[e, l] / g.ie[e]) * (x - g.P[e][:, [OPP[l]]])
            if self.rk == "snc":
                f = np.cross(self.nm[e] * g.nrm[e], f.T).T
            out[:, l, :] = f
        return out

    def local_coeffs(self, c, e):
        return self.T[self.rows(e)] @ c

    def values(self, c, e, pts):
        """sum_j c_j phi_j on element e at local points: (dim, npts)."""
        return np.tensordot(self.basis(e, pts), self.local_coeffs(c, e), axes=([1], [0]))


def ref_bilinear(R, Rt, Rs, what="mass", g=None, mode="component"):
    """Reference matrix of int psi_i . phi_j ("mass"), int grad psi_i . grad phi_j ("lb") or the weighted mass matrix
    int psi_i (g * phi_j) ("mult"; g = (RefSpace, coefficients))."""
    geo = Rt.geo
    assert geo is Rs.geo
    pts, w = R.triangle_rule(4)
    cplx = g is not None and np.iscomplexobj(g[1])
    M = np.zeros((Rt.ndof, Rs.ndof), dtype=complex if cplx else float)
    sup = Rt.sup & Rs.sup
    if g is not None:
        sup = sup & g[0].sup
    for e in np.flatnonzero(sup):
        if what == "lb":
            G = geo.p1_grads(e)
            loc = geo.area[e] * (G.T @ G)
        else:
            Bt, Bs = Rt.basis(e, pts), Rs.basis(e, pts)
            if what == "mult":
                gv = g[0].values(g[1], e, pts)          # (dim_g, npts)
                if mode == "component":
                    Bs = Bs * gv[:, None, :]
                else:
                    Bs = np.sum(Bs * gv[:, None, :], axis=0, keepdims=True)
            loc = geo.ie[e] * np.einsum("ciq,cjq,q->ij", Bt, Bs, w)
        M += Rt.T[Rt.rows(e)].T @ loc @ Rs.T[Rs.rows(e)]
    return M


def ref_integral(R, Rs, c):
    pts, w = R.triangle_rule(3)
    out = np.zeros(Rs.dim, dtype=np.result_type(c, float))
    for e in np.flatnonzero(Rs.sup):
        out = out + Rs.geo.ie[e] * (Rs.values(c, e, pts) @ w)
    return out


def ref_vertex_values(Rs, c):
    """Area-weighted average over the support elements touching each vertex of the element values there."""
    g = Rs.geo
    nv = g.V.shape[1]
    val = np.zeros((Rs.dim, nv), dtype=np.result_type(c, float))
    wsum = np.zeros(nv)
    corners = np.array([[0.0, 1.0, 0.0], [0.0, 0.0, 1.0]])
    for e in np.flatnonzero(Rs.sup):
        v = Rs.values(c, e, corners)
        for l in range(3):
            val[:, g.E[l, e]] += g.area[e] * v[:, l]
            wsum[g.E[l, e]] += g.area[e]
    used = wsum > 0
    val[:, used] /= wsum[used]
    return val


def element_params(Rs, c):
    """Rows (beta_0..2 | alpha) per element so that the represented function on element e is
    scalar:  f(x) = p[0:3] . x + p[3];   vector (rwg; snc = n x the same):  f(x) = p[0] x + p[1:4]."""
    g = Rs.geo
    p = np.zeros((g.ne, 4), dtype=np.result_type(c, float))
    for e in np.flatnonzero(Rs.sup):
        a = Rs.local_coeffs(c, e)
        if Rs.rk == "p0":
            p[e, 3] = a[0]
        elif Rs.rk == "p1":
            grad = g.p1_grads(e) @ a
            p[e, :3] = grad
            p[e, 3] = a[0] - grad @ g.P[e][:, 0]
        else:
            s = a * g.L[e] / g.ie[e]
            p[e, 0] = s.sum()
            p[e, 1:] = -(g.P[e][:, OPP] @ s)
    return p


def rel(a, b):
    a, b = np.asarray(a), np.asarray(b)
    if a.shape != b.shape:
        return np.inf
    d = float(np.linalg.norm((a - b).ravel()))
    s = max(float(np.linalg.norm(a.ravel())), float(np.linalg.norm(b.ravel())))
    if not np.isfinite(d):
        return np.inf
    return d / s if s > 0 else d


# ----------------------------------------------------------------------------- meshes with non-uniform element sizes


def grade(m, rng, g=1.1):
    """Scale the surface about its centroid by exp(g (s - 1/2)), s in [0,1] a coordinate along a random direction:
    element areas spread by about exp(2g). g is raised until the spread is at least 5x (angles permitting)."""
    d = rng.normal(size=3)
    d /= np.linalg.norm(d)
    c = m.V.mean(axis=1, keepdims=True)
    s = d @ (m.V - c)
    s = (s - s.min()) / (s.max() - s.min())
    best = None
    for fac in (1.0, 1.25, 1.6, 2.0, 2.5):
        out = m.copy(m.name + "^g")
        out.V = c + (m.V - c) * np.exp(fac * g * (s - 0.5))[None, :]
        if out.min_angle_deg() < 10.0:
            break
        best = out
        a = out.areas()
        if a.max() / a.min() >= 6.0:
            break
    return best if best is not None else out


def graded_screen(M, rng, n, m):
    """Planar screen with unequal spacing (tensor grading + in-plane jitter), then a random affine map and rotation."""
    s = M.screen(n, m)
    s.V[0] = s.V[0] ** 1.9
    s.V[1] = s.V[1] ** 1.5
    hx, hy = (1.0 / n) ** 1.9, (1.0 / m) ** 1.5
    s.V[0] += 0.15 * hx * rng.uniform(-1, 1, size=s.nv)
    s.V[1] += 0.15 * hy * rng.uniform(-1, 1, size=s.nv)
    A = np.eye(3) + 0.3 * rng.uniform(-1, 1, size=(3, 3))
    s.V = M.random_rotation(rng) @ (A @ s.V) + rng.normal(size=(3, 1))
    s.name = "gscreen%dx%d" % (n, m)
    return s


def scaled_solids(M, rng):
    a = M.distort(M.octahedron(), rng, jitter=0.05, strength=0.2)
    b = M.cube()
    b.V = M.random_rotation(rng) @ (0.35 * b.V) + np.array([[2.5], [0.4], [0.2]])
    out = M.disjoint_union([a, b], name="octa+smallcube", domains=[4, 1])
    return out


def build_pool(ctx, M):
    rng = ctx.rng("pool")
    mild = dict(jitter=0.06, strength=0.25, min_angle=12.0)

    def dom(m, k, values):
        return M.assign_domains(m, rng, k, values=values)

    pool = [("octa_r1", dom(M.distort(grade(M.refine(M.octahedron(), 1), rng), rng, **mild), 3, [5, 2, 9]), True, False),
            ("gscreen4x3", dom(graded_screen(M, rng, 4, 3), 2, [1, 4]), False, True),
            ("cube6", M.distort(grade(M.cube(face_domains=True), rng, 0.9), rng, **mild), True, False),
            ("two_solids", scaled_solids(M, rng), True, False),
            ("openbox", dom(M.distort(grade(M.cube_minus_face(), rng, 0.9), rng, **mild), 2, [7, 3]), False, False)]
    if not ctx.quick:
        fams = [lambda: (M.torus(6, 4), True), lambda: (M.l_prism(), True), lambda: (M.icosahedron(), True), lambda: (M.screen_with_hole(4), False),
                lambda: (M.voxel_ring(), True), lambda: (M.refine(M.tetrahedron(), 1), True), lambda: (M.dented_block(), True),
                lambda: (M.refine(M.cube_minus_face(), 1), False), lambda: (M.refine(M.two_triangle_fan(), 1), False), lambda: (M.octahedron(), True)]
        i = 0
        while len(pool) < 40 and i < 200:
            fam = fams[i % len(fams)]
            m, closed = fam()
            r = ctx.rng("pool", i)
            if i % 7 == 3:
                gs = graded_screen(M, r, 3 + i % 3, 2 + i % 4)
                cand = ("%s#%d" % (gs.name, i), M.assign_domains(gs, r, 2 + i % 2, values=[6, 0, 3][: 2 + i % 2]), False, True)
            else:
                mm = M.distort(grade(m, r, 0.9 + 0.1 * (i % 4)), r, **mild)
                cand = ("%s#%d" % (m.name, i), M.assign_domains(mm, r, 2 + i % 2, values=[3, 8, 1][: 2 + i % 2]), closed, False)
            a = cand[1].areas()
            if a.max() / a.min() >= 4.0:   # the property quantifies over grids with non-uniform element sizes
                pool.append(cand)
            else:
                ctx.count("generated_meshes_dropped_for_uniform_element_sizes")
            i += 1
    return pool


# ----------------------------------------------------------------------------- callables (all styles)

_TAB = {"p": None}


def _pt_elem_s(x, n, d, res, p):
    k = 4 * d
    res[0] = p[k] * x[0] + p[k + 1] * x[1] + p[k + 2] * x[2] + p[k + 3]


def _pt_elem_v(x, n, d, res, p):
    k = 4 * d
    res[0] = p[k] * x[0] + p[k + 1]
    res[1] = p[k] * x[1] + p[k + 2]
    res[2] = p[k] * x[2] + p[k + 3]


def _pt_elem_vn(x, n, d, res, p):
    k = 4 * d
    t0 = p[k] * x[0] + p[k + 1]
    t1 = p[k] * x[1] + p[k + 2]
    t2 = p[k] * x[2] + p[k + 3]
    res[0] = n[1] * t2 - n[2] * t1
    res[1] = n[2] * t0 - n[0] * t2
    res[2] = n[0] * t1 - n[1] * t0


def _vec_elem_s(x, n, d, res, p):
    k = 4 * np.asarray(d).astype(np.int64)
    res[0] = p[k] * x[0] + p[k + 1] * x[1] + p[k + 2] * x[2] + p[k + 3]


def _vec_elem_v(x, n, d, res, p):
    k = 4 * np.asarray(d).astype(np.int64)
    for i in range(3):
        res[i] = p[k] * x[i] + p[k + 1 + i]


def _vec_elem_vn(x, n, d, res, p):
    k = 4 * np.asarray(d).astype(np.int64)
    t = [p[k] * x[i] + p[k + 1 + i] for i in range(3)]
    res[0] = n[1] * t[2] - n[2] * t[1]
    res[1] = n[2] * t[0] - n[0] * t[2]
    res[2] = n[0] * t[1] - n[1] * t[0]


# fixed functions for the jit, non-parameterised style (Numba freezes globals: constants only)
AFF_RE = np.array([0.7, -1.3, 0.4, 0.25])
AFF_IM = np.array([-0.2, 0.5, 0.9, -0.6])
VEC_A = np.array([0.3, -0.8, 0.5])
VEC_B = 0.6


def _fix_affine_real(x, n, d, res):
    res[0] = 0.7 * x[0] - 1.3 * x[1] + 0.4 * x[2] + 0.25


def _fix_affine_cplx(x, n, d, res):
    res[0] = (0.7 * x[0] - 1.3 * x[1] + 0.4 * x[2] + 0.25) + 1j * (-0.2 * x[0] + 0.5 * x[1] + 0.9 * x[2] - 0.6)


def _fix_domconst_real(x, n, d, res):
    res[0] = 0.5 + 0.25 * d


def _fix_domconst_cplx(x, n, d, res):
    res[0] = (0.5 + 0.25 * d) + 1j * (1.0 - 0.125 * d)


def _fix_planar_real(x, n, d, res):
    # tangential field on a plane with unit normal +-n:  b (x - (x.n) n) + (a - (a.n) n)
    h = x[0] * n[0] + x[1] * n[1] + x[2] * n[2]
    g = 0.3 * n[0] - 0.8 * n[1] + 0.5 * n[2]
    res[0] = 0.6 * (x[0] - h * n[0]) + (0.3 - g * n[0])
    res[1] = 0.6 * (x[1] - h * n[1]) + (-0.8 - g * n[1])
    res[2] = 0.6 * (x[2] - h * n[2]) + (0.5 - g * n[2])


def _fix_planar_cplx(x, n, d, res):
    h = x[0] * n[0] + x[1] * n[1] + x[2] * n[2]
    g = 0.3 * n[0] - 0.8 * n[1] + 0.5 * n[2]
    res[0] = (1 + 0.5j) * (0.6 * (x[0] - h * n[0]) + (0.3 - g * n[0]))
    res[1] = (1 + 0.5j) * (0.6 * (x[1] - h * n[1]) + (-0.8 - g * n[1]))
    res[2] = (1 + 0.5j) * (0.6 * (x[2] - h * n[2]) + (0.5 - g * n[2]))


def _fix_planarn_real(x, n, d, res):
    # n x (the field above): lies in the SNC space with the same coefficients
    h = x[0] * n[0] + x[1] * n[1] + x[2] * n[2]
    g = 0.3 * n[0] - 0.8 * n[1] + 0.5 * n[2]
    t0 = 0.6 * (x[0] - h * n[0]) + (0.3 - g * n[0])
    t1 = 0.6 * (x[1] - h * n[1]) + (-0.8 - g * n[1])
    t2 = 0.6 * (x[2] - h * n[2]) + (0.5 - g * n[2])
    res[0] = n[1] * t2 - n[2] * t1
    res[1] = n[2] * t0 - n[0] * t2
    res[2] = n[0] * t1 - n[1] * t0


def _fix_planarn_cplx(x, n, d, res):
    h = x[0] * n[0] + x[1] * n[1] + x[2] * n[2]
    g = 0.3 * n[0] - 0.8 * n[1] + 0.5 * n[2]
    t0 = 0.6 * (x[0] - h * n[0]) + (0.3 - g * n[0])
    t1 = 0.6 * (x[1] - h * n[1]) + (-0.8 - g * n[1])
    t2 = 0.6 * (x[2] - h * n[2]) + (0.5 - g * n[2])
    res[0] = (1 + 0.5j) * (n[1] * t2 - n[2] * t1)
    res[1] = (1 + 0.5j) * (n[2] * t0 - n[0] * t2)
    res[2] = (1 + 0.5j) * (n[0] * t1 - n[1] * t0)


def planar_field(x, n):
    """The field of _fix_planar_real at points x (3, N) on a plane with unit normal +-n."""
    h = n @ x
    return VEC_B * (x - n[:, None] * h[None, :]) + (VEC_A - n * (n @ VEC_A))[:, None]


class Callables:
    """Lazily built callables: key = (body, complex, style, parameterised); style in jit / nojit / vec."""

    def __init__(self, api):
        self.api = api
        self.cache = {}
        self.used = {}

    def get(self, body, cplx, style, param):
        key = (body, bool(cplx), style, bool(param))
        if key in self.cache:
            return self.cache[key]
        api = self.api
        if body.startswith("fix_"):
            assert style == "jit" and not param
            f = globals()["_%s_%s" % (body, "cplx" if cplx else "real")]
            # the plain decorators of the public API
            fun = api.complex_callable(f) if cplx else api.real_callable(f)
        else:
            if style == "vec":
                base = globals()["_vec_" + body]
            else:
                base = globals()["_pt_" + body]
            if param:
                f = base
            else:
                def f(x, n, d, res, _base=base):
                    _base(x, n, d, res, _TAB["p"])
            if style == "jit":
                assert param
                fun = api.callable(complex=cplx, jit=True, parameterized=True)(f)
            elif style == "nojit":
                if not param:
                    fun = (api.complex_callable if cplx else api.real_callable)(f, jit=False)
                else:
                    fun = api.callable(complex=cplx, jit=False, parameterized=True)(f)
            else:
                fun = api.callable(complex=cplx, vectorized=True, parameterized=param)(f)
        self.cache[key] = fun
        return fun

    @staticmethod
    def style_name(cplx, style, param):
        return "%s_%s%s" % ("complex" if cplx else "real", {"jit": "jit", "nojit": "nonjit", "vec": "vectorized"}[style], "_param" if param else "")


ALL_STYLES = [(c, s, p) for c in (False, True) for s in ("jit", "nojit", "vec") for p in (False, True)]


# ----------------------------------------------------------------------------- second worker (edge-element family)
# The wall time of this check is Numba compilation, which is serial inside one process. The cases on vector-valued (edge) spaces
# therefore run in a second process ("--worker vec") beside the scalar ones; its findings are re-reported here under the same
# mechanism keys and its coverage counts are merged before the obligations are evaluated.


def spawn_part(ctx, name):
    import os
    import subprocess
    import sys
    from vlib.verdict import VERIF

    out = os.path.join(VERIF, ".work", "%s.%s.%d.json" % (ctx.pid, name, os.getpid()))
    os.makedirs(os.path.dirname(out), exist_ok=True)
    env = dict(os.environ)
    env["PYTHONPATH"] = VERIF + os.pathsep + env.get("PYTHONPATH", "")
    cmd = [sys.executable, "-X", "faulthandler", "-m", "checks.C13", "--worker", name, "--out", out, "--tier", ctx.tier, "--seed", str(ctx.seed)]
    log = open(out + ".log", "w")
    return {"name": name, "proc": subprocess.Popen(cmd, cwd=VERIF, env=env, stdout=log, stderr=subprocess.STDOUT), "out": out, "log": log}


def join_part(ctx, w):
    import contextlib
    import json
    import os
    import subprocess
    import time

    budget = 1500 if ctx.quick else 3 * 3600
    res, tail = None, ""
    try:
        rc = w["proc"].wait(timeout=max(60, budget - (time.time() - ctx.t0)))
    except subprocess.TimeoutExpired:
        w["proc"].kill()
        ctx.inconclusive.append("%s worker timed out" % w["name"])
        rc = None
    w["log"].close()
    with contextlib.suppress(OSError):
        with open(w["out"] + ".log") as f:
            tail = f.read()[-3000:]
    if rc is not None and os.path.exists(w["out"]):
        with contextlib.suppress(Exception):
            with open(w["out"]) as f:
                res = json.load(f)
    for pth in (w["out"], w["out"] + ".log"):
        with contextlib.suppress(OSError):
            os.remove(pth)
    if rc is not None and res is None:
        ctx.violation("%s_worker:crash" % w["name"], "%s worker exited with %s and no result\n%s" % (w["name"], rc, tail))
    return res


# ----------------------------------------------------------------------------- the check


def main():
    ctx = Ctx("C13")
    ctx.rule = ("non-uniform meshes (area spread >= 4x; closed/open/planar, 2-6 domains) x space pairs (DP0, DP1, P1, RWG, SNC; segments, support_elements, "
                "boundary dofs, truncation, swapped normals; test and trial independent) x library orders: identity / Laplace-Beltrami vs reference matrices; "
                "projection of in-space callables in 12 styles; grid-function functionals vs reference quadrature; MultiplicationOperator vs weighted mass; "
                "barycentric pairs. Distinct = (mesh, operation, kinds, options, order, style).")
    ctx.assumptions = ["shape functions, geometry and quadrature of the reference are the check's own (vlib.refmodel.triangle_rule, exact to degree 6); "
                       "DOF numbering, multipliers, supports and dof_transformation are read from the space (their coherence is C09/C10's business)",
                       "the library's triangle rule of order n is exact to degree n (C12 decides that)",
                       "barycentric (BC/RBC/DUAL) basis coefficients are taken from the spaces' dof_transformation: C13 decides the sparse assembly on the barycentric grid, "
                       "C10 decides that those coefficients represent the intended functions"]
    boot.boot()
    import bempp_cl.api as api
    from bempp_cl.api.assembly.boundary_operator import MultiplicationOperator
    from vlib import meshes as M, monitors as mon, ops as O, refmodel as R, spaces as S

    rec = mon.LAUNCH.install()
    san = ctx.worker == "san"
    if not ctx.worker:
        ctx.spawn_san("checks.C13")
    sparse = api.operators.boundary.sparse
    calls = Callables(api)
    pool = build_pool(ctx, M)
    spreads = {}
    for name, mesh, closed, planar in pool:
        a = mesh.areas()
        spreads[name] = float(a.max() / a.min())
    ctx.note("element_area_spread", {k: round(v, 1) for k, v in spreads.items()})
    if san:
        pool = pool[:2]
    partial_run = ctx.only_case is not None or bool(ctx.args.only)
    # family split (see spawn_part): parent = scalar spaces, worker "vec" = edge spaces; replays / --only runs and the sanitizer worker do both
    vec = ctx.worker == "vec"
    split = not ctx.worker and not partial_run
    vec_worker = spawn_part(ctx, "vec") if split else None

    def mine(kind):
        vector = kind in ("RWG", "SNC", "BC", "RBC")
        if vec:
            return vector
        if split:
            return not vector
        return True

    # (test, trial) pairs; the quick tier leaves out three kernel specialisations (JIT time), the thorough tier has all
    scalar_pairs = [("DP0", "DP0"), ("P1", "P1"), ("DP1", "P1"), ("P1", "DP1"), ("DP1", "DP1"), ("P1", "DP0"), ("DP1", "DP0"), ("DP0", "P1"), ("DP0", "DP1")]
    vector_pairs = [("RWG", "RWG"), ("SNC", "RWG"), ("SNC", "SNC")]
    if ctx.quick:
        # JIT budget of the quick tier (the wall time of this check is almost entirely Numba compilation, 5-20 s per kernel specialisation):
        # p0 test x p1 trial and every pair with SNC are left to the thorough tier; where a quick case would need an SNC mass matrix
        # (l2_norm, coefficients of a projection, projections onto / from SNC) that part is skipped. SNC itself is exercised in the quick tier
        # through projections of callables (vs M_ref c), integrate and the evaluate* functions.
        scalar_pairs = scalar_pairs[:-2]
        vector_pairs = vector_pairs[:1]
    else:
        vector_pairs += [("RWG", "SNC")]
    snc_mass = ("SNC", "SNC") in vector_pairs
    all_pairs = scalar_pairs + vector_pairs
    # the sanitizer-build worker repeats a sub-set of the parent's cases (same case ids, same draws) with fewer kernel specialisations
    san_pairs = {("P1", "P1"), ("DP1", "P1"), ("P1", "DP1"), ("DP1", "DP1"), ("RWG", "RWG")}
    san_orders = (2, 8, 20)
    seen = {"pairs": set(), "orders": set(), "styles": set(), "segment_identity": 0, "segment_projection": 0, "segment_gf": 0, "edge_identity": 0,
            "edge_projection": 0, "edge_gf": 0, "lb": 0, "mult": 0, "mult_partial": 0, "bary": 0, "spd": 0, "area_sum": 0, "complex_gf": 0}
    worst = {}

    def wmax(key, v):
        worst[key] = max(worst.get(key, 0.0), float(v) if np.isfinite(v) else 1e300)

    def drain(cid):
        for mm, msg in rec.drain():
            ctx.violation(mm, "%s: %s" % (cid, msg), cid)

    geos = {}

    def geo_of(grid):
        k = id(grid)
        if k not in geos:
            geos[k] = (grid, Geo(grid.vertices, grid.elements))
        return geos[k][1]

    def build(grid, mesh, topo, kind, opts):
        """Space + reference view, or None when the selection is empty / outside the entity model."""
        exp = S.expected_entities(topo, mesh.D, *KA[kind], opts)
        if exp is None or len(exp[1]) == 0:
            ctx.count("skipped_empty_selection")
            return None
        sp = S.make_space(api, grid, *KA[kind], **opts)
        if sp.is_barycentric:
            return sp, RefSpace(sp, kind, geo_of(sp.grid))
        return sp, RefSpace(sp, kind, geo_of(grid))

    def is_partial(opts):
        return opts.get("segments") is not None or opts.get("support_elements") is not None

    def pou_applies(kind, opts, closed):
        if kind in ("DP0", "DP1"):
            return True
        if kind != "P1":
            return False
        if not is_partial(opts) and closed:
            return True
        return bool(opts.get("include_boundary_dofs", False)) and bool(opts.get("truncate_at_segment_edge", True))

    def min_order(rt, rs):
        return max(1, DEG[REFKIND[rt]] + DEG[REFKIND[rs]])

    # ================================================================ identity
    def identity_case(cid, mname, mesh, grid, topo, closed, tk, sk, ot, os_, orders, spd=False, scope=False):
        if not ctx.want(cid) or not mine(tk):
            return
        if san:
            if not scope or (tk, sk) not in san_pairs:
                return
            orders = [o for o in orders if o in san_orders] if len(orders) > 3 else orders
        with ctx.guard(cid, "identity:%sx%s" % (tk, sk), allow=S.ALLOWED_REJECTIONS):
            bt = build(grid, mesh, topo, tk, ot)
            bs = bt if spd else build(grid, mesh, topo, sk, os_)
            if bt is None or bs is None:
                return
            (test, Rt), (trial, Rs) = bt, bs
            ref = ref_bilinear(R, Rt, Rs)
            need = min_order(tk, sk)
            for order in orders:
                A = O.dense(sparse.identity(trial, trial, test, parameters=O.params(api, order, 4)))
                dev = rel(A, ref)
                ctx.case("%s:o%d" % (cid, order), {"mesh": mname, "op": "identity", "test": [tk, S.opts_key(ot)], "trial": [sk, S.opts_key(os_)], "order": order,
                                                   "shape": list(A.shape), "rel_dev": dev, "demanded": order >= need})
                if order < need:
                    ctx.count("identity_orders_below_product_degree_not_demanded")
                    if not np.all(np.isfinite(A)):
                        ctx.violation("identity:%sx%s:non_finite" % (tk, sk), "%s order %d" % (cid, order), cid)
                    continue
                seen["pairs"].add((tk, sk))
                seen["orders"].add(order)
                wmax("identity", dev)
                if is_partial(ot) or is_partial(os_):
                    seen["segment_identity"] += 1
                if tk in VECTOR:
                    seen["edge_identity"] += 1
                if dev > TOL_M:
                    ctx.violation("identity:%sx%s:value" % (tk, sk), "%s order %d: ||I - M_ref|| / ||M_ref|| = %.3e (test %s %s, trial %s %s)"
                                  % (cid, order, dev, tk, S.opts_key(ot), sk, S.opts_key(os_)), cid,
                                  data={"mesh_V": mesh.V, "mesh_E": mesh.E, "mesh_D": mesh.D, "test": [tk, S.opts_key(ot)], "trial": [sk, S.opts_key(os_)], "order": order,
                                        "observed": A, "expected": ref})
                    continue
                if scope:
                    ctx.diff("I:%s:o%d" % (cid, order), A, scale=O.frob(A) / max(1.0, np.sqrt(A.size)))
                if spd:
                    seen["spd"] += 1
                    asym = O.frob(A - A.T) / max(O.frob(A), 1e-300)
                    if asym > 1e-14:
                        ctx.violation("identity:%s:not_symmetric" % tk, "%s order %d: ||A - A^T|| / ||A|| = %.3e" % (cid, order, asym), cid)
                    try:
                        np.linalg.cholesky(0.5 * (A + A.T))
                    except np.linalg.LinAlgError:
                        ctx.violation("identity:%s:not_positive_definite" % tk, "%s order %d: Cholesky factorisation fails; min eig %.3e"
                                      % (cid, order, np.linalg.eigvalsh(0.5 * (A + A.T)).min()), cid)
                    if pou_applies(tk, ot, closed):
                        seen["area_sum"] += 1
                        # the basis sums to 1 on the requested support, so the entries sum to its area
                        req = S.requested_support(topo, mesh.D, ot)
                        area = float(mesh.areas()[req].sum())
                        d = abs(A.sum() - area) / area
                        wmax("area_sum", d)
                        if d > TOL_M:
                            ctx.violation("identity:%s:area_sum" % tk, "%s order %d: entries sum to %.15g, area %.15g" % (cid, order, A.sum(), area), cid)
        drain(cid)

    # ================================================================ Laplace-Beltrami
    def lb_case(cid, mname, mesh, grid, topo, closed, tk, sk, ot, os_, orders, same=False, scope=False):
        if not ctx.want(cid) or not mine(tk):
            return
        if san:
            if not scope:
                return
            orders = [o for o in orders if o in san_orders] if len(orders) > 3 else orders
        with ctx.guard(cid, "laplace_beltrami:%sx%s" % (tk, sk), allow=S.ALLOWED_REJECTIONS):
            bt = build(grid, mesh, topo, tk, ot)
            bs = bt if same else build(grid, mesh, topo, sk, os_)
            if bt is None or bs is None:
                return
            (test, Rt), (trial, Rs) = bt, bs
            ref = ref_bilinear(R, Rt, Rs, what="lb")
            for order in orders:
                A = O.dense(sparse.laplace_beltrami(trial, trial, test, parameters=O.params(api, order, 4)))
                dev = rel(A, ref)
                seen["lb"] += 1
                seen["orders"].add(order)
                wmax("laplace_beltrami", dev)
                ctx.case("%s:o%d" % (cid, order), {"mesh": mname, "op": "laplace_beltrami", "test": [tk, S.opts_key(ot)], "trial": [sk, S.opts_key(os_)], "order": order, "rel_dev": dev})
                if dev > TOL_M:
                    ctx.violation("laplace_beltrami:%sx%s:value" % (tk, sk), "%s order %d: ||L - L_ref|| / ||L_ref|| = %.3e (test %s, trial %s)"
                                  % (cid, order, dev, S.opts_key(ot), S.opts_key(os_)), cid,
                                  data={"mesh_V": mesh.V, "mesh_E": mesh.E, "mesh_D": mesh.D, "observed": A, "expected": ref})
                    continue
                if scope:
                    ctx.diff("L:%s:o%d" % (cid, order), A, scale=O.frob(A) / max(1.0, np.sqrt(A.size)))
                if same:
                    asym = O.frob(A - A.T) / max(O.frob(A), 1e-300)
                    if asym > 1e-14:
                        ctx.violation("laplace_beltrami:%s:not_symmetric" % tk, "%s order %d: %.3e" % (cid, order, asym), cid)
                    ev = np.linalg.eigvalsh(0.5 * (A + A.T))
                    if ev.min() < -1e-12 * max(ev.max(), 1e-300):
                        ctx.violation("laplace_beltrami:%s:not_positive_semidefinite" % tk, "%s order %d: eigenvalues in [%.3e, %.3e]" % (cid, order, ev.min(), ev.max()), cid)
                    if pou_applies(tk, ot, closed) and not is_partial(ot):
                        r1 = np.linalg.norm(A @ np.ones(A.shape[1])) / max(O.frob(A), 1e-300)
                        wmax("laplace_beltrami_constants", r1)
                        if r1 > TOL_M:
                            ctx.violation("laplace_beltrami:%s:constants_not_annihilated" % tk, "%s order %d: ||L 1|| / ||L|| = %.3e" % (cid, order, r1), cid)
        drain(cid)

    # ================================================================ projection of callables
    def check_projection(cid, mesh, sp, Rs, fun, fparams, c_exact, order, style, kind, scope=False):
        solve = snc_mass or kind != "SNC"
        """GridFunction(space, fun=...) must carry projections M_ref c and coefficients c."""
        par = O.params(api, order, 4)
        kw = {}
        if fparams is not None:
            kw["function_parameters"] = fparams
        gf = api.GridFunction(sp, fun=fun, parameters=par, **kw)
        Mref = ref_bilinear(R, Rs, Rs)
        proj = np.asarray(gf.projections())
        dev_p = rel(proj, Mref @ c_exact)
        coef = np.asarray(gf.coefficients) if solve else np.array(c_exact)
        dev_c = rel(coef, c_exact)
        if not solve:
            ctx.count("projection_cases_without_mass_solve_(SNC_in_the_quick_tier)")
        wmax("projection_projections", dev_p)
        wmax("projection_coefficients", dev_c)
        ctx.case(cid, {"mesh": mesh.name, "op": "project", "style": style, "kind": kind, "order": order, "ndof": int(Rs.ndof), "dev_projections": dev_p, "dev_coefficients": dev_c})
        seen["styles"].add(style)
        data = {"mesh_V": mesh.V, "mesh_E": mesh.E, "mesh_D": mesh.D, "style": style, "kind": kind, "order": order, "expected_coefficients": c_exact, "observed_coefficients": coef}
        bad = False
        if coef.shape != c_exact.shape or dev_p > TOL_M:
            ctx.violation("projection:%s:%s:projections" % (style, kind), "%s: projections differ from M_ref c by %.3e (relative)" % (cid, dev_p), cid, data=data)
            bad = True
        if dev_c > TOL_C:
            ctx.violation("projection:%s:%s:coefficients" % (style, kind), "%s: recovered coefficients differ from the exact ones by %.3e (relative)" % (cid, dev_c), cid, data=data)
            bad = True
        if np.iscomplexobj(c_exact) != np.iscomplexobj(coef):
            ctx.violation("projection:%s:%s:dtype" % (style, kind), "%s: coefficient dtype %s" % (cid, coef.dtype), cid)
        if not bad and scope:
            ctx.diff("P:%s" % cid, coef, scale=float(np.abs(coef).max()))
        return gf

    def vertex_affine_coeffs(Rs, cplx):
        g = Rs.geo
        c = np.zeros(Rs.ndof, dtype=complex if cplx else float)
        assert Rs.T.shape[1] == Rs.space.grid_dof_count  # primal space
        for e in np.flatnonzero(Rs.sup):
            for l in range(3):
                if Rs.mult[e, l] != 0:
                    v = g.V[:, g.E[l, e]]
                    c[Rs.l2g[e, l]] = (AFF_RE[:3] @ v + AFF_RE[3]) + (1j * (AFF_IM[:3] @ v + AFF_IM[3]) if cplx else 0.0)
        return c

    def planar_coeffs(Rs, cplx):
        """u . nu on the edge of every RWG/SNC dof (nu = outward co-normal of the element with multiplier +1)."""
        g = Rs.geo
        c = np.zeros(Rs.ndof, dtype=complex if cplx else float)
        done = np.zeros(Rs.ndof, dtype=bool)
        for e in np.flatnonzero(Rs.sup):
            n = Rs.nm[e] * g.nrm[e]
            for l in range(3):
                if Rs.mult[e, l] == 1.0 and not done[Rs.l2g[e, l]]:
                    a, b = g.P[e][:, ENDS[l][0]], g.P[e][:, ENDS[l][1]]
                    mid = 0.5 * (a + b)
                    t = (b - a) / np.linalg.norm(b - a)
                    w = g.P[e][:, OPP[l]] - a
                    w = w - (w @ t) * t
                    nu = -w / np.linalg.norm(w)
                    # the callable receives n = normal * normal_multiplier of the element it is evaluated on; on a plane all
                    # elements share the geometric normal, so the field only depends on the sign convention of this element
                    u = planar_field(mid[:, None], n)[:, 0]
                    c[Rs.l2g[e, l]] = (u @ nu) * ((1 + 0.5j) if cplx else 1.0)
                    done[Rs.l2g[e, l]] = True
        return c

    def projection_cases(mname, mesh, grid, topo, closed, planar, mesh_e, grid_e, topo_e, recipes, scope_ids):
        for ri, (body, cplx, style, param, kind, variant) in enumerate(recipes):
            sname = Callables.style_name(cplx, style, param)
            cid = "proj:%s:%s:%s:%s:v%d" % (mname, sname, body, kind, variant)
            scope = ri in scope_ids
            if not ctx.want(cid) or (san and not scope) or not mine(kind):
                continue
            rng = ctx.rng(mname, "proj", sname, body, kind, variant)
            order = int(rng.choice([2, 3, 4, 5, 7, 10, 16, 20])) if variant else 4
            with ctx.guard(cid, "projection:%s:%s" % (sname, kind), allow=S.ALLOWED_REJECTIONS):
                if body.startswith("fix_"):
                    # simple in-space functions on the mesh with 2-6 domains
                    if body == "fix_affine":
                        opts = {} if kind == "DP1" and variant == 0 else S.random_opts(rng, mesh, *KA[kind], variant=variant)
                        opts.pop("swapped_normals", None)
                        if kind == "P1":
                            if is_partial(opts) or not closed:
                                opts["include_boundary_dofs"] = True
                                opts["truncate_at_segment_edge"] = True
                            else:
                                opts = {}
                    elif body == "fix_domconst":
                        opts = S.random_opts(rng, mesh, *KA[kind], variant=variant)
                        opts.pop("swapped_normals", None)
                    else:
                        if not planar:
                            continue
                        opts = {"include_boundary_dofs": True}
                        if variant:
                            doms = sorted(set(mesh.D.tolist()))
                            opts["segments"] = [doms[variant % len(doms)]]
                            opts["truncate_at_segment_edge"] = True
                        if variant == 2:
                            opts["swapped_normals"] = [sorted(set(mesh.D.tolist()))[0]]
                    b = build(grid, mesh, topo, kind, opts)
                    if b is None:
                        continue
                    sp, Rs = b
                    if body == "fix_affine":
                        c = vertex_affine_coeffs(Rs, cplx)
                    elif body == "fix_domconst":
                        c = np.zeros(Rs.ndof, dtype=complex if cplx else float)
                        for e in np.flatnonzero(Rs.sup):
                            dd = float(mesh.D[e])
                            c[Rs.l2g[e, 0]] = (0.5 + 0.25 * dd) + (1j * (1.0 - 0.125 * dd) if cplx else 0.0)
                    else:
                        c = planar_coeffs(Rs, cplx)
                    fun = calls.get(body, cplx, "jit", False)
                    check_projection(cid, mesh, sp, Rs, fun, None, c, order, sname, kind, scope)
                    used_mesh, used_opts = mesh, opts
                else:
                    # sum_j c_j phi_j evaluated inside the callable by element lookup (domain index = element index)
                    opts = S.random_opts(rng, mesh_e, *KA[kind], variant=variant)
                    b = build(grid_e, mesh_e, topo_e, kind, opts)
                    if b is None:
                        continue
                    sp, Rs = b
                    c = rng.normal(size=Rs.ndof) + (1j * rng.normal(size=Rs.ndof) if cplx else 0.0)
                    p = element_params(Rs, c).ravel()
                    p = p.astype(complex) if cplx else p.astype(float)
                    fun = calls.get(body, cplx, style, param)
                    _TAB["p"] = p
                    check_projection(cid, mesh_e, sp, Rs, fun, p if param else None, c, order, sname, kind, scope)
                    _TAB["p"] = None
                    used_mesh, used_opts = mesh_e, opts
                if is_partial(used_opts):
                    seen["segment_projection"] += 1
                if kind in VECTOR:
                    seen["edge_projection"] += 1
            drain(cid)

    # ================================================================ functionals of a grid function
    def gf_case(cid, mname, mesh, grid, topo, kind, opts, cplx, dual_kind, dual_opts, scope=False):
        if not ctx.want(cid) or (san and not scope) or not mine(kind):
            return
        rng = ctx.rng(cid)
        with ctx.guard(cid, "grid_function:%s" % kind, allow=S.ALLOWED_REJECTIONS):
            b = build(grid, mesh, topo, kind, opts)
            if b is None:
                return
            sp, Rs = b
            c = rng.normal(size=Rs.ndof) + (1j * rng.normal(size=Rs.ndof) if cplx else 0.0)
            order = int(rng.choice([1, 2, 3, 4, 6, 9, 14, 20]))
            gf = api.GridFunction(sp, coefficients=c, parameters=O.params(api, order, 4))
            g = Rs.geo
            scale_f = float(np.sqrt(sum(g.area[e] * np.abs(Rs.values(c, e, np.array([[1 / 3], [1 / 3]]))).max() ** 2 for e in np.flatnonzero(Rs.sup))))
            info = {"mesh": mname, "op": "grid_function", "kind": kind, "opts": S.opts_key(opts), "complex": cplx, "order": order}
            tag = kind
            if cplx:
                seen["complex_gf"] += 1
            if is_partial(opts):
                seen["segment_gf"] += 1
            if kind in VECTOR or kind in ("BC", "RBC"):
                seen["edge_gf"] += 1
            data = {"mesh_V": mesh.V, "mesh_E": mesh.E, "mesh_D": mesh.D, "kind": kind, "opts": S.opts_key(opts), "coefficients": c, "order": order}

            # integrate: sum of |f| area as the natural magnitude (the integral of an edge function may cancel)
            got = np.asarray(gf.integrate())
            want = ref_integral(R, Rs, c)
            mag = float(sum(g.ie[e] * np.abs(Rs.values(c, e, np.array([[1 / 3], [1 / 3]]))).sum() * 0.5 for e in np.flatnonzero(Rs.sup)))
            d = float(np.abs(got - want).max() / max(mag, 1e-300)) if got.shape == want.shape else np.inf
            wmax("integrate", d)
            info["integrate_dev"] = d
            if not (d <= TOL_M):
                ctx.violation("integrate:%s:value" % tag, "%s: integrate() = %s, reference quadrature of the represented function = %s (sum |f| dA = %.3g)"
                              % (cid, np.array2string(got, precision=6), np.array2string(want, precision=6), mag), cid, data=dict(data, observed=got, expected=want))
            # l2 norm
            if snc_mass or kind != "SNC":
                Mref = ref_bilinear(R, Rs, Rs)
                want = float(np.sqrt(abs(np.conj(c) @ (Mref @ c))))
                got = gf.l2_norm()
                d = abs(got - want) / max(want, 1e-300)
                wmax("l2_norm", d)
                if not (d <= TOL_M):
                    ctx.violation("l2_norm:%s:value" % tag, "%s: l2_norm() = %.15g, reference %.15g" % (cid, got, want), cid, data=data)
            # projections onto another dual space
            if dual_kind is not None and (dual_kind, kind) in all_pairs:
                bd = build(grid, mesh, topo, dual_kind, dual_opts)
                if bd is not None:
                    dsp, Rd = bd
                    if Rd.geo is Rs.geo:
                        got = np.asarray(gf.projections(dsp))
                        want = ref_bilinear(R, Rd, Rs) @ c
                        d = rel(got, want) if np.linalg.norm(want) > 1e-13 * scale_f else float(np.linalg.norm(got - want))
                        wmax("projections", d)
                        info["dual"] = [dual_kind, S.opts_key(dual_opts)]
                        if not (d <= TOL_M):
                            ctx.violation("projections:%s->%s:value" % (tag, dual_kind), "%s: projections(dual %s %s) differ from M_ref c by %.3e" % (cid, dual_kind, S.opts_key(dual_opts), d), cid, data=data)
                        # a query is pure: after it, the projections onto the function's own dual space (and a repeated query)
                        # still agree with direct quadrature
                        if (kind, kind) in all_pairs:
                            got_own = np.asarray(gf.projections())
                            want_own = ref_bilinear(R, Rs, Rs) @ c
                            d_own = rel(got_own, want_own) if got_own.shape == want_own.shape else np.inf
                            got_rep = np.asarray(gf.projections(dsp))
                            d_rep = rel(got_rep, want) if got_rep.shape == want.shape else np.inf
                            wmax("projections_after_query", max(d_own if np.isfinite(d_own) else 0.0, d_rep if np.isfinite(d_rep) else 0.0))
                            seen["projection_sequences"] = seen.get("projection_sequences", 0) + 1
                            if not (d_own <= TOL_M) or not (d_rep <= TOL_M):
                                ctx.violation("projections:%s:after_query_of_other_dual" % tag, "%s: after projections(dual %s) the function's own projections() differ from M_ref c by %.3e "
                                              "and the repeated query by %.3e" % (cid, dual_kind, d_own, d_rep), cid, data=data)
            # pointwise evaluation (support and non-support elements)
            els = list(rng.choice(g.ne, size=min(4, g.ne), replace=False))
            outside = np.flatnonzero(~Rs.sup)
            if len(outside):
                els.append(int(outside[0]))
            fmax = max(1e-300, max(np.abs(Rs.values(c, e, np.array([[1 / 3, 0.0], [1 / 3, 1.0]]))).max() for e in np.flatnonzero(Rs.sup)))
            for e in els:
                lp = rng.dirichlet([1, 1, 1], size=5).T[:2].copy()
                got = np.asarray(gf.evaluate(int(e), lp))
                want = Rs.values(c, int(e), lp)
                d = float(np.abs(got - want).max() / fmax) if got.shape == want.shape else np.inf
                wmax("evaluate", d)
                if not (d <= TOL_M):
                    ctx.violation("evaluate:%s:value" % tag, "%s: evaluate(element %d) differs from the reference by %.3e of max |f|" % (cid, e, d), cid, data=data)
                    break
            if not sp.is_barycentric:
                got = np.asarray(gf.evaluate_on_element_centers())
                want = np.zeros((Rs.dim, g.ne), dtype=c.dtype)
                for e in np.flatnonzero(Rs.sup):
                    want[:, e] = Rs.values(c, e, np.array([[1 / 3], [1 / 3]]))[:, 0]
                d = float(np.abs(got - want).max() / fmax) if got.shape == want.shape else np.inf
                wmax("evaluate_on_element_centers", d)
                if not (d <= TOL_M):
                    ctx.violation("evaluate_on_element_centers:%s:value" % tag, "%s: differs from the reference by %.3e of max |f| (shape %s)" % (cid, d, got.shape), cid, data=data)
                got = np.asarray(gf.evaluate_on_vertices())
                want = ref_vertex_values(Rs, c)
                d = float(np.abs(got - want).max() / fmax) if got.shape == want.shape else np.inf
                wmax("evaluate_on_vertices", d)
                if not (d <= TOL_M):
                    ctx.violation("evaluate_on_vertices:%s:value" % tag, "%s: differs from the area-weighted vertex average of the reference by %.3e of max |f| (shape %s)" % (cid, d, got.shape), cid, data=data)
                if scope:
                    ctx.diff("G:%s" % cid, np.concatenate([np.asarray(gf.integrate()).ravel(), got.ravel()[:50]]), scale=fmax)
            ctx.case(cid, info)
        drain(cid)

    # ================================================================ multiplication operator
    def mult_case(cid, mname, mesh, grid, topo, gk, dk, tk, og, od, ot, cplx, mode):
        if not ctx.want(cid) or not mine(gk):
            return
        rng = ctx.rng(cid)
        built = []
        with ctx.guard(cid, "multiplication_operator:spaces", allow=S.ALLOWED_REJECTIONS):
            built = [build(grid, mesh, topo, gk, og), build(grid, mesh, topo, dk, od), build(grid, mesh, topo, tk, ot)]
        if len(built) != 3 or any(b is None for b in built):
            return
        (gs, Rg), (ds, Rd), (ts, Rt) = built
        joint = Rg.sup & Rd.sup & Rt.sup
        if not np.any(joint):
            ctx.count("skipped_empty_selection")
            return
        # input class: the three supports cover the whole grid / their intersection is a proper sub-set of the elements
        partial = not np.all(joint)
        cls = "%s:%s" % ("scalar" if gk in SCALAR else "vector", "partial_support" if partial else "whole")
        with ctx.guard(cid, "multiplication_operator:%s:%s" % (mode, cls), allow=S.ALLOWED_REJECTIONS):
            c = rng.normal(size=Rg.ndof) + (1j * rng.normal(size=Rg.ndof) if cplx else 0.0)
            gf = api.GridFunction(gs, coefficients=c)
            op = MultiplicationOperator(gf, ds, ds, ts, mode=mode)
            A = O.dense(op)
            ref = ref_bilinear(R, Rt, Rd, what="mult", g=(Rg, c), mode=mode)
            dev = rel(A, ref)
            wmax("multiplication_operator", dev)
            seen["mult"] += 1
            if partial:
                seen["mult_partial"] += 1
            ctx.case(cid, {"mesh": mname, "op": "multiplication", "mode": mode, "g": [gk, S.opts_key(og)], "domain": [dk, S.opts_key(od)], "dual": [tk, S.opts_key(ot)],
                           "complex": cplx, "joint_support_elements": int(joint.sum()), "rel_dev": dev})
            if not (dev <= TOL_M):
                ctx.violation("multiplication_operator:%s:%s:value" % (mode, cls), "%s: ||A - int psi_i (g phi_j)|| / ||ref|| = %.3e (g %s %s, domain %s %s, dual %s %s; "
                              "joint support: %d of %d elements, first %s)"
                              % (cid, dev, gk, S.opts_key(og), dk, S.opts_key(od), tk, S.opts_key(ot), int(joint.sum()), len(joint), np.flatnonzero(joint)[:6].tolist()), cid,
                              data={"mesh_V": mesh.V, "mesh_E": mesh.E, "mesh_D": mesh.D, "coefficients": c, "observed": A, "expected": ref})
        drain(cid)

    # ================================================================ barycentric pairs
    def bary_case(cid, mname, mesh, grid, topo, tk, sk, ot, os_, orders, spd=False, force=False):
        if not (ctx.want(cid) or force) or not mine(tk):
            return None
        result = [None]
        with ctx.guard(cid, "identity_barycentric:%sx%s" % (tk, sk), allow=S.ALLOWED_REJECTIONS):
            out = []
            for kind, opts in ((tk, ot), (sk, os_)):
                exp = S.expected_entities(topo, mesh.D, *KA[kind], opts)
                if exp is None or len(exp[1]) == 0:
                    ctx.count("skipped_empty_selection")
                    return None
                sp = S.make_space(api, grid, *KA[kind], **opts)
                rep = sp if sp.is_barycentric else sp.barycentric_representation()
                out.append((sp, RefSpace(rep, kind, geo_of(rep.grid))))
            (test, Rt), (trial, Rs) = out
            if Rt.geo is not Rs.geo:
                raise RuntimeError("barycentric representations live on different grid objects")
            ref = ref_bilinear(R, Rt, Rs)
            mats = []
            for order in orders:
                A = O.dense(sparse.identity(trial, trial, test, parameters=O.params(api, order, 4)))
                dev = rel(A, ref)
                mats.append(A)
                seen["bary"] += 1
                wmax("identity_barycentric", dev)
                ctx.case("%s:o%d" % (cid, order), {"mesh": mname, "op": "identity_barycentric", "test": [tk, S.opts_key(ot)], "trial": [sk, S.opts_key(os_)], "order": order, "rel_dev": dev})
                if not (dev <= TOL_M):
                    ctx.violation("identity_barycentric:%sx%s:value" % (tk, sk), "%s order %d: ||I - M_ref(barycentric grid)|| / ||M_ref|| = %.3e" % (cid, order, dev), cid,
                                  data={"mesh_V": mesh.V, "mesh_E": mesh.E, "mesh_D": mesh.D, "observed": A, "expected": ref})
                    continue
                if spd:
                    try:
                        np.linalg.cholesky(0.5 * (A + A.T))
                    except np.linalg.LinAlgError:
                        ctx.violation("identity_barycentric:%s:not_positive_definite" % tk, "%s order %d" % (cid, order), cid)
                    if O.frob(A - A.T) > 1e-14 * O.frob(A):
                        ctx.violation("identity_barycentric:%s:not_symmetric" % tk, "%s order %d" % (cid, order), cid)
            if len(mats) > 1:
                d = max(rel(mats[0], m_) for m_ in mats[1:])
                wmax("identity_barycentric_order_independence", d)
                if not (d <= TOL_M):
                    ctx.violation("identity_barycentric:%sx%s:order_dependence" % (tk, sk), "%s: matrices at orders %s differ by %.3e" % (cid, orders, d), cid)
            result[0] = mats[-1] if mats else None
        drain(cid)
        return result[0]

    # ================================================================ workload
    sweep_orders = [1, 2, 3, 4, 5, 8, 13, 20] if ctx.quick else list(range(1, 21))
    nvar = 12 if ctx.quick else 28

    def draw_orders(rng, lo):
        return sorted({int(o) for o in rng.choice(np.arange(lo, 21), size=2)})

    import time as _time
    wall_by_mesh = {}
    for mi, (mname, mesh, closed, planar) in enumerate(pool):
        t_mesh = _time.time()
        grid = M.to_grid(mesh)
        topo = S.Topo(mesh.V, mesh.E)
        mesh_e = mesh.copy(mesh.name + "|elemdom")
        mesh_e.D = np.arange(mesh.ne)
        grid_e = M.to_grid(mesh_e)

        # ---- identity, equal spaces (whole grid + option variants): reference, symmetry, Cholesky, area sums; order sweep on the first mesh(es)
        for kind in ("P1", "RWG", "DP0", "DP1", "SNC"):
            if (kind, kind) not in all_pairs:
                continue
            for vi in (0, 1, 2):
                rng = ctx.rng(mname, "eq", kind, vi)
                opts = {} if vi == 0 else S.random_opts(rng, mesh, *KA[kind], variant=int(rng.integers(1, 8)))
                if vi == 0 and not closed and kind in ("P1", "RWG", "SNC"):
                    opts = {"include_boundary_dofs": True}
                sweep = (mi == 0 or (not ctx.quick and mi == 1)) and vi < 2
                orders = sweep_orders if sweep else draw_orders(rng, min_order(kind, kind))
                identity_case("I:%s:%s=:v%d" % (mname, kind, vi), mname, mesh, grid, topo, closed, kind, kind, opts, opts, orders, spd=True,
                              scope=mi < 2 and vi < 2 and kind in ("P1", "RWG"))
        ctx.lap("identity_equal_spaces")
        # ---- identity, test and trial spaces chosen independently
        for vi in range(nvar):
            tk, sk = all_pairs[(vi + mi) % len(all_pairs)]
            rng = ctx.rng(mname, "pair", vi)
            ot = S.random_opts(rng, mesh, *KA[tk], variant=vi)
            os_ = S.random_opts(rng, mesh, *KA[sk], variant=int(rng.integers(0, 8)) if vi % 3 else vi + 1)
            orders = sweep_orders if (mi == 0 and vi < len(all_pairs)) else draw_orders(rng, min_order(tk, sk))
            identity_case("I:%s:%sx%s:v%d" % (mname, tk, sk, vi), mname, mesh, grid, topo, closed, tk, sk, ot, os_, orders, scope=mi < 2)
        ctx.lap("identity_pairs")
        # ---- identity between spaces whose normal orientations DIFFER (swapped_normals on one side only): SNC = n x RWG is the
        # basis that feels the orientation, as test space and as trial space (one SNC pair also in the quick tier)
        doms_ = sorted(set(mesh.D.tolist()))
        if len(doms_) >= 2 and mi < 2:
            for tk, sk in ((("SNC", "RWG"),) if ctx.quick else (("SNC", "RWG"), ("RWG", "SNC"), ("SNC", "SNC"))):
                for side in (0, 1):
                    rng = ctx.rng(mname, "swap", tk, sk, side)
                    ot = {"swapped_normals": [int(doms_[0])]} if side == 0 else {}
                    os_ = {} if side == 0 else {"swapped_normals": [int(doms_[-1])]}
                    if not closed:
                        ot["include_boundary_dofs"] = os_["include_boundary_dofs"] = True
                    identity_case("I:%s:%sx%s:swap%d" % (mname, tk, sk, side), mname, mesh, grid, topo, closed, tk, sk, ot, os_,
                                  draw_orders(rng, min_order(tk, sk)))
            ctx.lap("identity_swapped_one_side")
        # ---- Laplace-Beltrami
        for vi in range(5 if ctx.quick else 12):
            rng = ctx.rng(mname, "lb", vi)
            tk = ("P1", "DP1")[vi % 2]
            same = vi < 3
            sk = tk if same else ("P1", "DP1")[(vi // 2) % 2]
            if vi == 0:
                ot = {} if (closed or tk == "DP1") else {"include_boundary_dofs": True}
            elif vi == 1:
                ot = {}
            else:
                ot = S.random_opts(rng, mesh, *KA[tk], variant=vi + mi)
            os_ = ot if same else S.random_opts(rng, mesh, *KA[sk], variant=int(rng.integers(0, 8)))
            orders = sweep_orders if (mi == 0 and vi < 2) else draw_orders(rng, 1)
            lb_case("L:%s:%sx%s:v%d" % (mname, tk, sk, vi), mname, mesh, grid, topo, closed, tk, sk, ot, os_, orders, same=same, scope=mi < 2 and vi in (0, 3))
        ctx.lap("laplace_beltrami")

        # ---- projection of callables
        if ctx.quick:
            # quick: 5 compiled callables (each costs a compilation of _project_function) + the 4 vectorised styles; all 12 styles in the thorough tier
            base = [("fix_affine", False, "jit", False, "P1", 1), ("fix_planar", False, "jit", False, "RWG", 1),
                    ("elem_vn", True, "jit", True, "SNC", 3),
                    ("elem_s", False, "nojit", False, "P1", 4), ("elem_s", True, "nojit", True, "DP1", 5),
                    ("elem_v", False, "vec", False, "RWG", 6), ("elem_s", True, "vec", False, "DP1", 0),
                    ("elem_s", False, "vec", True, "P1", 3), ("elem_s", True, "vec", True, "DP0", 1)]
            recipes = [(b, c, s, p, k, (v + mi) % 8 if not b.startswith("fix_planar") else (v + mi) % 3) for (b, c, s, p, k, v) in base]
            scope_ids = {0, 5, 8} if mi == 0 else ({3, 2} if mi == 1 else set())
        else:
            recipes = []
            scal_k = ["DP0", "DP1", "P1"]
            for si, (c, s, p) in enumerate(ALL_STYLES):
                if s == "jit" and not p:
                    recipes += [("fix_affine", c, s, p, ("P1", "DP1")[(si + mi) % 2], (mi + si) % 8), ("fix_domconst", c, s, p, "DP0", (mi + 2 * si) % 8),
                                ("fix_planar", c, s, p, "RWG", mi % 3), ("fix_planarn", c, s, p, "SNC", (mi + 1) % 3)]
                else:
                    recipes += [("elem_s", c, s, p, scal_k[(si + mi) % 3], (mi + si) % 8), ("elem_v", c, s, p, "RWG", (mi + si + 3) % 8),
                                ("elem_vn", c, s, p, "SNC", (mi + 2 * si + 1) % 8)]
            scope_ids = {0, 5, 12, 20} if mi == 0 else ({9, 30} if mi == 1 else set())
        projection_cases(mname, mesh, grid, topo, closed, planar, mesh_e, grid_e, topo, recipes, scope_ids)
        ctx.lap("projection")

        # ---- functionals of grid functions given by coefficients
        gf_kinds = ["P1", "RWG", "DP0", "DP1", "SNC"]
        dual_for = {"DP0": ["DP0", "P1", "DP1"], "DP1": ["P1", "DP1", "DP0"], "P1": ["P1", "DP1", "DP0"], "RWG": ["SNC", "RWG"], "SNC": ["SNC", "RWG"] if not ctx.quick else ["SNC"]}
        if not ctx.quick and mesh.ne <= 40 and mi % 2 == 0:
            gf_kinds += ["BC", "RBC", "DUAL0", "DUAL1"]
            dual_for.update({"BC": ["RBC", "BC"], "RBC": ["RBC"], "DUAL0": ["DUAL0", "DUAL1"], "DUAL1": ["DUAL1"]})
        for kind in gf_kinds:
            bary_kind = kind in ("BC", "RBC", "DUAL0", "DUAL1")
            for vi in range(3 if ctx.quick or bary_kind else 8):
                rng = ctx.rng(mname, "gf", kind, vi)
                opts = {} if vi == 0 else S.random_opts(rng, mesh, *KA[kind], variant=vi + mi)
                if vi == 0 and not closed and kind in ("P1", "RWG", "SNC"):
                    opts = {"include_boundary_dofs": True}
                dk = dual_for[kind][vi % len(dual_for[kind])]
                dopts = S.random_opts(rng, mesh, *KA[dk], variant=int(rng.integers(0, 8)))
                if bary_kind:
                    for o in (opts, dopts):
                        o.pop("include_boundary_dofs", None)
                if "swapped_normals" in opts:
                    dopts["swapped_normals"] = opts["swapped_normals"]
                else:
                    dopts.pop("swapped_normals", None)
                cplx = bool((vi + mi) % 2) and (not ctx.quick or kind in ("P1", "RWG"))
                gf_case("G:%s:%s:v%d" % (mname, kind, vi), mname, mesh, grid, topo, kind, opts, cplx, dk, dopts, scope=mi < 2 and vi < 2 and kind in ("P1", "RWG"))
        ctx.lap("grid_function")

        # ---- multiplication operator
        if not san:
            mcases = []
            sc = ["P1", "DP0", "DP1"]
            for vi in range(6 if ctx.quick else 14):
                rng = ctx.rng(mname, "mult", vi)
                gk, dk, tk = sc[vi % 3], sc[(vi // 3 + 1) % 3], sc[(vi + mi) % 3]
                whole = vi == 0
                og = {} if whole or vi % 4 == 1 else S.random_opts(rng, mesh, *KA[gk], variant=vi)
                od = {} if whole else S.random_opts(rng, mesh, *KA[dk], variant=vi + 1)
                ot = {} if whole or vi % 4 == 3 else S.random_opts(rng, mesh, *KA[tk], variant=vi + 2)
                mcases.append((gk, dk, tk, og, od, ot, bool(vi % 2), "component"))
            for vi in range(2 if ctx.quick else 4):
                rng = ctx.rng(mname, "multv", vi)
                inc = {"include_boundary_dofs": True} if not closed else {}
                og = dict(inc) if vi == 0 else S.random_opts(rng, mesh, "RWG", 0, variant=vi + mi)
                od = dict(inc) if vi == 0 else S.random_opts(rng, mesh, "RWG", 0, variant=vi + mi + 3)
                for o in (og, od):
                    o.pop("swapped_normals", None)
                mcases.append(("RWG", "RWG", ("RWG", "SNC")[vi % 2], og, od, dict(inc), bool(vi % 2), "component"))
                mcases.append(("RWG", ("RWG", "SNC")[vi % 2], ("P1", "DP0", "DP1")[(vi + mi) % 3], og, od, {}, bool((vi + 1) % 2), "inner"))
            for ci, (gk, dk, tk, og, od, ot, cplx, mode) in enumerate(mcases):
                mult_case("X:%s:%s:%s*%s->%s:c%d" % (mname, mode, gk, dk, tk, ci), mname, mesh, grid, topo, gk, dk, tk, og, od, ot, cplx, mode)
            ctx.lap("multiplication_operator")

        # ---- barycentric pairs on the small meshes
        if mesh.ne <= 40 and not san and not ctx.quick and mi % 3 == 0:
            # (thorough tier only: building the barycentric spaces and representations costs about a minute of JIT)
            bo = [2, 3, 9, 20]
            bary = [("P1", "DUAL0", [1] + bo), ("DUAL0", "DUAL0", [1] + bo)]
            if True:
                bary += [("RBC", "RWG", bo), ("SNC", "BC", bo), ("BC", "BC", bo), ("DUAL0", "P1", [1] + bo), ("RBC", "RBC", bo), ("DUAL1", "DUAL1", bo), ("DUAL1", "DP0", bo), ("RWG", "RBC", bo), ("BC", "SNC", bo), ("DUAL0", "DUAL1", bo)]
            keep = {}
            for bi, (tk, sk, orders) in enumerate(bary):
                rng = ctx.rng(mname, "bary", bi)
                whole = mi % 2 == 0 or (tk, sk) in (("RBC", "RWG"), ("SNC", "BC"))
                if whole:
                    ot, os_ = {}, {}
                else:
                    ot = S.random_opts(rng, mesh, *KA[tk], variant=1 + bi % 4)
                    os_ = dict(ot) if tk == sk else S.random_opts(rng, mesh, *KA[sk], variant=1 + (bi + 1) % 4)
                    for o in (ot, os_):
                        o.pop("swapped_normals", None)
                        # the dual-grid spaces refuse boundary dofs; their primal partners are taken without them as well
                        o.pop("include_boundary_dofs", None)
                force = ctx.only_case == "B:%s:rotation" % mname and (tk, sk) in (("SNC", "BC"), ("RBC", "RWG"))   # replay of the rotation identity
                keep[(tk, sk)] = bary_case("B:%s:%sx%s" % (mname, tk, sk), mname, mesh, grid, topo, tk, sk, ot, os_, orders, spd=(tk == sk), force=force)
            # rotation identity (n x . preserves the inner product and is skew): <SNC_i, BC_j> = -<RWG_i, RBC_j> = -<RBC_j, RWG_i>
            a, b = keep.get(("SNC", "BC")), keep.get(("RBC", "RWG"))
            if a is not None and b is not None:
                d = rel(a, -b.T)
                wmax("rotation_identity", d)
                ctx.case("B:%s:rotation" % mname, {"mesh": mname, "op": "rotation identity <SNC,BC> = -<RBC,RWG>^T", "rel_dev": d})
                if not (d <= TOL_M):
                    ctx.violation("identity_barycentric:rotation_identity", "%s: <SNC_i, BC_j> + <RBC_j, RWG_i> differs from zero by %.3e (relative)" % (mname, d), "B:%s:rotation" % mname)
            ctx.lap("barycentric")
        wall_by_mesh[mname] = round(_time.time() - t_mesh, 1)
    ctx.note("wall_by_mesh_s (the first meshes carry the JIT compilation)", wall_by_mesh)
    import os as _os
    ctx.note("machine_load_average_1_5_15min_at_end (16 cores; the wall time is serial JIT and scales with it)", [round(x, 1) for x in _os.getloadavg()])

    # ================================================================ coverage
    if vec_worker is not None:
        res = join_part(ctx, vec_worker)
        if res is not None:
            wn = res.get("notes", {})
            ws = wn.get("seen", {})
            seen["pairs"] |= {tuple(p_) for p_ in ws.get("pairs", [])}
            seen["orders"] |= set(ws.get("orders", []))
            seen["styles"] |= set(ws.get("styles", []))
            for k_, v_ in ws.get("counts", {}).items():
                seen[k_] += v_
            for k_, v_ in wn.get("worst_rel_dev", {}).items():
                wmax(k_, v_)
            for k_, v_ in (res.get("counters") or {}).items():
                ctx.count(k_, v_)
            for v_ in res.get("violations", []):
                ctx.violation(v_["mechanism"], v_["message"], case_id=v_.get("case_id"))
            for m_, k_ in res.get("known_hits", {}).items():
                kk = ctx.known_hits.setdefault(m_, {"what": k_.get("what", ""), "count": 0, "first": k_.get("first")})
                kk["count"] += k_["count"]
            ctx._diff.update(res.get("diff") or {})          # the sanitizer worker's edge-space results are compared with these
            ctx.evaluations += int(res.get("evaluations", 0))
            ctx._distinct.update("vec:%d" % i_ for i_ in range(int(wn.get("distinct", 0))))
            ctx.note("worker_vec", {"cases": res.get("evaluations"), "wall_s": res.get("wall_s"), "wall_by_phase_s": wn.get("wall_by_phase_s"),
                                    "launch_recorder": wn.get("launch_recorder"), "violations": len(res.get("violations", []))})
            if res.get("evaluations", 0) == 0:
                ctx.inconclusive.append("vec worker observed no case")
    if vec:
        ctx.note("seen", {"pairs": sorted(seen["pairs"]), "orders": sorted(seen["orders"]), "styles": sorted(seen["styles"]),
                          "counts": {k: v for k, v in seen.items() if isinstance(v, int)}})
        ctx.note("distinct", len(ctx._distinct))
    # ================================================================ a function given by its projections onto ANOTHER dual space
    # (P1 function, projections onto DP0, on the tetrahedron, where both spaces have 4 dofs and the mixed mass matrix is
    # invertible): its functionals are still those of the function it represents
    cid = "G:tetra:P1:projections_onto_DP0"
    if ctx.want(cid) and not san and mine("P1"):
        with ctx.guard(cid, "grid_function:P1"):
            rngt = ctx.rng(cid)
            mt_ = M.distort(M.tetrahedron(), rngt)
            gt_ = M.to_grid(mt_)
            p1t, dp0t = api.function_space(gt_, "P", 1), api.function_space(gt_, "DP", 0)
            part = O.params(api, 4, 4)
            Mmix = O.dense(sparse.identity(p1t, p1t, dp0t, parameters=part))      # <chi_i, phi_j>
            M11 = O.dense(sparse.identity(p1t, p1t, p1t, parameters=part))
            for cplx in (False, True):
                c = rngt.normal(size=4) + (1j * rngt.normal(size=4) if cplx else 0.0)
                for scale_ in (1.0, 2.0):
                    gfp = api.GridFunction(p1t, projections=Mmix @ c, dual_space=dp0t, parameters=part)
                    if scale_ != 1.0:
                        gfp = scale_ * gfp
                    want_norm = scale_ * float(np.sqrt(abs(np.conj(c) @ (M11 @ c))))
                    got_norm = float(gfp.l2_norm())
                    d1 = abs(got_norm - want_norm) / want_norm
                    d2 = rel(np.asarray(gfp.coefficients), scale_ * c)
                    d3 = rel(np.asarray(gfp.projections(p1t)), scale_ * (M11 @ c))
                    wmax("projections_onto_other_dual", max(d1, d2, d3))
                    ctx.case("%s:%s:x%g" % (cid, "complex" if cplx else "real", scale_), {"mesh": "tetra", "op": "grid function from projections onto another dual space",
                                                                                          "complex": cplx, "scale": scale_, "l2_norm_dev": d1, "coefficients_dev": d2, "projections_dev": d3})
                    if not (max(d1, d2, d3) <= 1e-11):
                        ctx.violation("grid_function:from_projections_onto_other_dual", "%s: l2_norm / coefficients / projections(own space) deviate by %.3e / %.3e / %.3e from the function the projections define"
                                      % (cid, d1, d2, d3), cid)
        drain(cid)
    ctx.note("worst_rel_dev", worst)
    ctx.note("launch_recorder", rec.summary())
    ctx.note("pairs_compared_at_exact_orders", sorted("%sx%s" % p for p in seen["pairs"]))
    ctx.note("orders_compared", sorted(seen["orders"]))
    ctx.note("callable_styles_exercised", sorted(seen["styles"]))
    ctx.note("counts", {k: v for k, v in seen.items() if isinstance(v, int)})
    free = partial_run or bool(ctx.worker)
    ctx.obligation("every mesh has element areas spread >= 4x", all(v >= 4.0 for v in spreads.values()), {k: round(v, 1) for k, v in spreads.items()})
    want_styles = {Callables.style_name(*s) for s in ALL_STYLES}
    if ctx.quick:
        flags = set()
        for st in seen["styles"]:
            flags |= set(st.split("_"))
        ctx.obligation("callable styles: each of real / complex / jit / nonjit / vectorized / param exercised, at least 8 of the 12 combinations (all 12 in the thorough tier)",
                       free or (flags >= {"real", "complex", "jit", "nonjit", "vectorized", "param"} and len(seen["styles"]) >= 8), sorted(seen["styles"]))
    else:
        ctx.obligation("each callable style exercised (real/complex x jit/non-jit/vectorised x parameterised or not)", free or seen["styles"] >= want_styles,
                       sorted(want_styles - seen["styles"]))
    ctx.obligation("identity compared for every enabled (test, trial) pair", free or seen["pairs"] >= set(all_pairs), sorted("%sx%s" % p for p in set(all_pairs) - seen["pairs"]))
    ctx.obligation("segment / support_elements spaces exercised in identity, projection, grid functions and the multiplication operator",
                   free or min(seen["segment_identity"], seen["segment_projection"], seen["segment_gf"], seen["mult_partial"]) > 0,
                   {k: seen[k] for k in ("segment_identity", "segment_projection", "segment_gf", "mult_partial")})
    ctx.obligation("RWG / SNC exercised in identity, projection and grid functions", free or min(seen["edge_identity"], seen["edge_projection"], seen["edge_gf"]) > 0,
                   {k: seen[k] for k in ("edge_identity", "edge_projection", "edge_gf")})
    need_orders = set(sweep_orders) - {1}
    ctx.obligation("quadrature orders swept (%s)" % ("2..20" if not ctx.quick else "subset of 2..20; all of 1..20 in the thorough tier"), free or seen["orders"] >= need_orders,
                   sorted(need_orders - seen["orders"]))
    ctx.obligation("Laplace-Beltrami, SPD, area-sum, complex coefficient, multiplication operator%s cases observed" % ("" if ctx.quick else " and barycentric"),
                   free or min(seen["lb"], seen["spd"], seen["area_sum"], seen["complex_gf"], seen["bary"] + (1 if ctx.quick else 0), seen["mult"]) > 0,
                   {k: seen[k] for k in ("lb", "spd", "area_sum", "complex_gf", "bary", "mult")})
    ctx.obligation("sparse launches recorded", free or rec.summary()["launches"].get("sparse:default_sparse_kernel", 0) > 0 or any(k.startswith("sparse:") for k in rec.summary()["launches"]),
                   rec.summary()["launches"])
    ctx.finish()


if __name__ == "__main__":
    main()
