"""C15 — linear solvers return solutions of the stated system, in the right spaces.

Monitor / oracle
 * Systems are manufactured: a well-conditioned operator A (single, blocked, generalized blocked; real, complex), a known
   coefficient vector c of a grid function (list) f in the domain of A, and a right-hand side given three ways:
     lib       rhs = A * f through the library,
     own_proj  rhs = GridFunction(range_i, projections = (Aw c)_i, dual_space = dual_i)   (Aw = independent dense model),
     own_coef  rhs = GridFunction(range_i, coefficients = M_i^-1 (Aw c)_i)                (M_i = mass matrix range_i -> dual_i).
   The dense model Aw is put together with NumPy from separately constructed elementary operators
   (weak_form().to_dense() of fresh objects), never from the blocked / summed object handed to the solver.
 * lu:     returned coefficients equal c to 1e-11*cond(Aw); the precomputed-factor path equals the direct path to 1e-12*cond.
 * gmres / cg: the system actually iterated on is modelled from the code (weak: Aw x = projections; strong:
   blockdiag(M_i)^-1 Aw x = range coefficients, Euclidean norms). A reference run of the *original* scipy routine on the dense
   model with the same tol/restart/maxiter decides whether convergence is to be expected (clear margins; borderline cases
   only get the consistency checks). Expected convergence => info == 0; info == 0 => true relative residual <= 5 tol and
   error <= 5 tol cond; expected non-convergence (maxiter hit) => info > 0.
 * returned GridFunction(s): `.space` is / == the domain space (per block column), coefficient length = its dof count.
 * bookkeeping: scipy.sparse.linalg.gmres / cg (the names the solver module looks up at call time) are wrapped; every
   callback invocation is recorded. iteration_count == number of callback invocations, len(residuals) == the same number,
   gmres residuals equal the values scipy passed, cg residuals equal ||b - A x_k|| recomputed from the recorded iterates,
   last residual consistent with the residual of the returned solution.
"""

import os

import numpy as np

from vlib import boot
from vlib.verdict import Ctx

TOLS = [1e-4, 1e-6, 1e-8, 1e-10, 1e-12]
COND_MAX = 2e3  # generator obligation: systems above this are not "well-conditioned" and are not used


# ----------------------------------------------------------------------------------------------------------------- spy
class SolverSpy:
    """Wraps scipy.sparse.linalg.gmres / cg; records every callback invocation of the call in flight."""

    def __init__(self):
        self.orig = {}
        self.records = []
        self.total_callbacks = 0
        self.total_calls = 0

    def install(self):
        import scipy.sparse.linalg as spla

        for name in ("gmres", "cg"):
            self.orig[name] = getattr(spla, name)
            setattr(spla, name, self._wrap(name))

    def _wrap(self, name):
        orig = self.orig[name]
        spy = self

        def wrapped(A, b, *args, **kw):
            rec = {"solver": name, "cb_calls": 0, "cb_args": [], "kw": {k: kw.get(k) for k in ("rtol", "tol", "atol", "restart", "maxiter", "callback_type")},
                   "b": np.array(b, copy=True).ravel(), "shape": getattr(A, "shape", None)}
            cb = kw.get("callback")
            if cb is not None:
                def spy_cb(arg):
                    rec["cb_calls"] += 1
                    spy.total_callbacks += 1
                    rec["cb_args"].append(np.array(arg, copy=True))
                    return cb(arg)

                kw["callback"] = spy_cb
            spy.total_calls += 1
            spy.records.append(rec)
            out = orig(A, b, *args, **kw)
            try:
                rec["x"] = np.array(out[0], copy=True).ravel()
                rec["info"] = int(out[1])
            except Exception:  # noqa: BLE001
                pass
            return out

        wrapped.__wrapped__ = orig
        return wrapped

    def begin(self):
        self.records = []

    def end(self):
        r, self.records = self.records, []
        return r


# ------------------------------------------------------------------------------------------------------------- systems
class System:
    pass


def T(family, op, coef=1.0, k=None):
    return (coef, family, op, k)


def _term_op(api, O, par, term, dom, ran, dual):
    coef, family, op, k = term
    return coef, O.boundary(api, family, op, dom, ran, dual, k=k, parameters=par)


def lib_block(api, O, par, terms, dom, ran, dual):
    """Library operator for one block: sum_k coef_k * op_k, formed with the library's own operator algebra."""
    acc = None
    for term in terms:
        coef, op = _term_op(api, O, par, term, dom, ran, dual)
        piece = op if coef == 1.0 else coef * op
        acc = piece if acc is None else acc + piece
    return acc


def model_block(api, O, par, terms, dom, ran, dual):
    """Independent dense model of one block (fresh elementary operators, combined with NumPy)."""
    acc = None
    for term in terms:
        coef, op = _term_op(api, O, par, term, dom, ran, dual)
        d = coef * O.dense(op)
        acc = d if acc is None else acc + d
    return acc


def build_system(api, O, par, spec):
    """spec: name, cls, domains, ranges, duals, blocks[i][j] (list of terms or None), form, spd, mesh."""
    S = System()
    S.name, S.cls, S.form = spec["name"], spec["cls"], spec.get("form", "single")
    S.domains, S.ranges, S.duals = list(spec["domains"]), list(spec["ranges"]), list(spec["duals"])
    S.spd = bool(spec.get("spd", False))
    S.mesh = spec["mesh"]
    S.descr = spec.get("descr", "")
    blocks = spec["blocks"]
    m, n = len(S.ranges), len(S.domains)
    S.blocked = S.form != "single"

    def lib(i, j):
        return lib_block(api, O, par, blocks[i][j], S.domains[j], S.ranges[i], S.duals[i])

    def plain_blocked(rows, cols):
        B = api.BlockedOperator(len(rows), len(cols))
        for a, i in enumerate(rows):
            for b, j in enumerate(cols):
                if blocks[i][j] is not None:
                    B[a, b] = lib(i, j)
        return B

    scale = 1.0
    if S.form == "single":
        S.A = lib(0, 0)
    elif S.form == "blocked":
        S.A = plain_blocked(range(m), range(n))
    elif S.form == "scaled":
        scale = spec["alpha"]
        S.A = scale * plain_blocked(range(m), range(n))
    elif S.form == "sum":
        scale = 1.0 + spec["beta"]
        S.A = plain_blocked(range(m), range(n)) + plain_blocked(range(m), range(n)) * spec["beta"]
    elif S.form == "product":
        # (diag of identity operators range_i -> range_i) * B: weak form = diag(M_i) M_i^-1 B_w = B_w, but the object is a
        # ProductBlockedOperator whose domain spaces are those of the RIGHT factor
        Idiag = api.BlockedOperator(m, m)
        for i in range(m):
            Idiag[i, i] = api.operators.boundary.sparse.identity(S.ranges[i], S.ranges[i], S.duals[i], parameters=par)
        S.A = Idiag * plain_blocked(range(m), range(n))
    elif S.form == "generalized":
        S.A = api.GeneralizedBlockedOperator([[lib(i, j) for j in range(n)] for i in range(m)])
    elif S.form == "generalized_nested":
        # [[B (first m-1 rows x first n-1 cols), column], [row, single]]
        top = list(range(m - 1))
        left = list(range(n - 1))
        S.A = api.GeneralizedBlockedOperator([[plain_blocked(top, left), plain_blocked(top, [n - 1])],
                                              [plain_blocked([m - 1], left), lib(m - 1, n - 1)]])
    else:
        raise ValueError(S.form)

    rows = []
    for i in range(m):
        row = []
        for j in range(n):
            if blocks[i][j] is None:
                row.append(np.zeros((S.duals[i].global_dof_count, S.domains[j].global_dof_count)))
            else:
                row.append(model_block(api, O, par, blocks[i][j], S.domains[j], S.ranges[i], S.duals[i]))
        rows.append(row)
    S.Aw = scale * np.block(rows)
    S.cplx = bool(np.iscomplexobj(S.Aw))
    S.M = [O.dense(O.boundary(api, "sparse", "identity", S.ranges[i], S.ranges[i], S.duals[i], parameters=par)) for i in range(m)]
    S.dom_sizes = [int(s.global_dof_count) for s in S.domains]
    S.ran_sizes = [int(s.global_dof_count) for s in S.ranges]
    S.dual_sizes = [int(s.global_dof_count) for s in S.duals]
    S.n = int(sum(S.dom_sizes))
    assert S.Aw.shape == (sum(S.dual_sizes), S.n), (S.name, S.Aw.shape, S.dual_sizes, S.dom_sizes)
    assert S.Aw.shape[0] == S.Aw.shape[1], (S.name, S.Aw.shape)
    S.strong_ok = S.ran_sizes == S.dual_sizes and not spec.get("weak_only", False)
    S.cond_w = float(np.linalg.cond(S.Aw))
    S.cond_M = float(max(np.linalg.cond(Mi) for Mi in S.M)) if S.strong_ok else float("nan")
    if S.strong_ok:
        S.As = np.vstack([np.linalg.solve(S.M[i], S.Aw[sum(S.dual_sizes[:i]):sum(S.dual_sizes[:i + 1])]) for i in range(m)])
        S.cond_s = float(np.linalg.cond(S.As))
    else:
        S.As, S.cond_s = None, float("nan")
    S.asym = float(np.linalg.norm(S.Aw - S.Aw.conj().T) / np.linalg.norm(S.Aw))
    S.unequal_blocks = S.blocked and (S.dom_sizes != S.dual_sizes or len(set(S.dom_sizes)) > 1)
    S.permuted_sizes = S.blocked and S.dom_sizes != S.ran_sizes
    S.lib_rhs_broken = False
    return S


def split(v, sizes):
    out, pos = [], 0
    for s in sizes:
        out.append(v[pos:pos + s])
        pos += s
    return out


def system_specs(api, M, O, ctx):
    """Yield spec dicts lazily (spaces are cheap; operators are only assembled in build_system)."""
    L, H, X = "laplace", "helmholtz", "maxwell"
    ident = T("sparse", "identity")
    rng = ctx.rng("meshes")
    meshes = [M.distort(M.refine(M.octahedron(), 1), rng)]  # 32 elements, 18 vertices
    if not ctx.quick:
        meshes.append(M.distort(M.l_prism(), rng))  # 28 elements, 16 vertices
        meshes.append(M.distort(M.refine(M.octahedron(), 2), rng))  # 128 elements, 66 vertices
    specs = []
    for mi, mesh in enumerate(meshes):
        grid = M.to_grid(mesh)
        allel = list(range(mesh.ne))
        dp0 = api.function_space(grid, "DP", 0)
        p1 = api.function_space(grid, "P", 1)
        # same functions, flipped normal orientation: a *different* space with the same dof count, so that an operator can have
        # domain != range without changing the sizes (V and the mass matrices do not depend on the normals; K changes sign)
        dp0s = api.function_space(grid, "DP", 0, swapped_normals=allel)
        p1s = api.function_space(grid, "P", 1, swapped_normals=allel)
        tag = "m%d" % mi
        md = mesh.describe()
        kc = 0.8 + 0.4j
        dl = [T("sparse", "identity", 0.5), T(L, "double_layer")]  # with swapped domain normals this is 1/2 I - K (well conditioned)

        def add(name, cls, form, domains, ranges, duals, blocks, **kw):
            specs.append(dict(name="%s.%s" % (tag, name), cls=cls, form=form, domains=domains, ranges=ranges, duals=duals, blocks=blocks, mesh=md, **kw))

        first = mi == 0
        big = mesh.ne > 100
        # ---- single operators
        add("lapV", "single", "single", [dp0s], [dp0], [dp0], [[[T(L, "single_layer")]]], spd=True, descr="Laplace V, DP0(swapped normals) -> DP0")
        add("lapDL", "single", "single", [p1s], [p1], [p1], [[dl]], descr="1/2 I + K(domain normals swapped) on P1")
        if first or not ctx.quick:
            add("helmV", "single", "single", [dp0s], [dp0], [dp0], [[[T(H, "single_layer", 1.0, kc)]]], descr="Helmholtz V, k=0.8+0.4i")
        if first:
            add("lapV_rd", "single_rd", "single", [dp0s], [p1], [dp0], [[[T(L, "single_layer")]]], spd=True,
                descr="Laplace V with range P1 (18 dofs) and dual DP0 (32 dofs): weak form only")
        # ---- blocked, cheap kinds only (V, K on P1, mass matrices between P1 and DP0)
        cheap = [[[T(L, "single_layer")], [ident]], [[ident], dl]]
        cheap_perm = [[cheap[0][1], cheap[0][0]], [cheap[1][1], cheap[1][0]]]
        add("blk", "blocked", "blocked", [dp0s, p1s], [dp0, p1], [dp0, p1], cheap, descr="[[V, M],[M^T, 1/2I-K]] domain (DP0s,P1s)")
        add("blkperm", "blocked", "blocked", [p1s, dp0s], [dp0, p1], [dp0, p1], cheap_perm,
            descr="[[M, V],[1/2I-K, M^T]]: domain sizes (nv,ne) differ from range/dual sizes (ne,nv) position-wise")
        if first or not ctx.quick:
            cplx = [[[T(H, "single_layer", 1.0, kc)], [T("sparse", "identity", 1.0j)]], [[ident], dl]]
            add("blkcplx", "blocked", "blocked", [dp0s, p1s], [dp0, p1], [dp0, p1], cplx, descr="complex blocked with real and complex blocks")
        if first and mesh.ne <= 40:
            # range space != dual space with a square, NON-symmetric mass matrix (BC range, SNC dual): the strong form is
            # M(range, dual)^-1 A_w, not its transpose
            bc_ = api.function_space(grid, "BC", 0)
            snc_ = api.function_space(grid, "SNC", 0)
            idb = [[[T("sparse", "identity", 1.0)], [T("sparse", "identity", 0.3j)]], [[T("sparse", "identity", -0.2)], [T("sparse", "identity", 1.5)]]]
            add("blkbc", "blocked", "blocked", [bc_, bc_], [bc_, bc_], [snc_, snc_], idb,
                descr="2x2 complex combination of identity(BC, BC, SNC): range BC, dual SNC, non-symmetric mass matrix")
        if first:
            add("blkprod", "blocked", "product", [p1s, dp0s], [dp0, p1], [dp0, p1], cheap_perm,
                descr="diag(I) * [[M, V],[1/2I-K, M^T]] (ProductBlockedOperator; domain spaces (P1s,DP0s) differ from those of the left factor)")
        if first:
            add("blk_rd", "blocked_rd", "blocked", [dp0s, p1s], [p1, p1], [dp0, p1], cheap,
                descr="blocked, block row 0 has range P1 (nv dofs) but dual DP0 (ne dofs): weak form only")
        if not ctx.quick:
            cplx_perm = [[[T("sparse", "identity", 1.0j)], [T(H, "single_layer", 1.0, kc)]], [dl, [ident]]]
            add("blkcplxperm", "blocked", "blocked", [p1s, dp0s], [dp0, p1], [dp0, p1], cplx_perm, descr="complex, permuted columns")
            add("blkscaled", "blocked", "scaled", [p1s, dp0s], [dp0, p1], [dp0, p1], cheap_perm, alpha=-1.5, descr="-1.5 * blocked (ScaledBlockedOperator)")
            add("blksum", "blocked", "sum", [dp0s, p1s], [dp0, p1], [dp0, p1], cheap, beta=0.25, descr="B + 0.25 B (SumBlockedOperator of two separately built operators)")
            add("gen", "generalized", "generalized", [p1s, dp0s], [dp0, p1], [dp0, p1], cheap_perm, descr="GeneralizedBlockedOperator of four simple operators")
            three = [[[T(L, "single_layer")], [ident], [T(L, "single_layer", 0.5)]],
                     [[ident], dl, [ident]],
                     [[T(L, "single_layer", 0.5)], [T("sparse", "identity", -1.0)], [T(L, "single_layer", 2.0)]]]
            add("gen3", "generalized", "generalized_nested", [dp0s, p1s, dp0s], [dp0, p1, dp0], [dp0, p1, dp0], three,
                descr="3x3 nested generalized: [[Blocked 2x2, Blocked 2x1],[Blocked 1x2, simple]]")
            if not big:
                # full first-kind / Calderon style system (K, K', W cost extra JIT: thorough only)
                full = [[[T(L, "single_layer")], [T(L, "double_layer")]],
                        [[T(L, "adjoint_double_layer")], [T(L, "hypersingular"), ident]]]
                full_perm = [[full[0][1], full[0][0]], [full[1][1], full[1][0]]]
                add("full", "blocked", "blocked", [dp0s, p1], [dp0, p1], [dp0, p1], full, descr="[[V,K],[K',W+M]]")
                add("fullperm", "blocked", "blocked", [p1, dp0s], [dp0, p1], [dp0, p1], full_perm, descr="[[K,V],[W+M,K']]")
                add("lapWM", "single", "single", [p1], [p1], [p1], [[[T(L, "hypersingular"), ident]]], spd=True, descr="W + M on P1 (SPD, non-diagonal mass)")
            if first:
                hfull = [[[T(H, "single_layer", 1.0, kc)], [T(H, "double_layer", 1.0, kc)]],
                         [[T(H, "adjoint_double_layer", 1.0, kc)], [T(H, "hypersingular", 1.0, kc), ident]]]
                add("hfull", "blocked", "blocked", [dp0s, p1], [dp0, p1], [dp0, p1], hfull, descr="Helmholtz [[V,K],[K',W+M]], k=0.8+0.4i")
                rwg = api.function_space(grid, "RWG", 0)
                snc = api.function_space(grid, "SNC", 0)
                # the plain L2 Gram matrix between RWG and SNC (= n x RWG) is numerically singular (cond 1e17, measured), so the strong form of
                # an (RWG, RWG, SNC) operator is not a well-conditioned system: weak form only
                add("efie", "single_weak_only", "single", [rwg], [rwg], [snc], [[[T(X, "electric_field", 1.0, 1.2)]]], weak_only=True,
                    descr="Maxwell E, RWG/RWG/SNC, k=1.2 (weak form only)")
    return specs


# ------------------------------------------------------------------------------------------------------------- configs
def case_list(spec_name, cls, strong_ok, spd, n, ctx):
    """Deterministic list of (case_id, solver, cfg) for one system; independent of any filter."""
    rng = ctx.rng(spec_name, "cfg")
    rd = not strong_ok
    rhs_kinds = ["lib", "own_proj"] + ([] if rd else ["own_coef"])
    out = []

    def add(solver, **cfg):
        out.append(("%s:%s:%d" % (spec_name, solver, sum(1 for o in out if o[1] == solver)), solver, cfg))

    add("mul", fc=False)
    add("mul", fc=True)
    for rk in rhs_kinds:
        add("lu", rhs=rk, fc=False)
    add("lu", rhs="own_proj" if rd else "lib", fc=True)

    def G(**kw):
        cfg = dict(tol=1e-8, restart=None, maxiter=None, strong=False, rr=True, ric=True, rhs="own_proj" if rd else "lib", fc=False)
        cfg.update(kw)
        add("gmres", **cfg)

    G(restart=n)
    if strong_ok:
        G(tol=1e-6, strong=True, restart=n, rhs="own_coef", rr=False, ric=False)
        G(tol=1e-10, strong=True, restart=2 * n, rhs="lib", rr=False, ric=True, fc=True)
    G(tol=1e-12, restart=2 * n, rr=True, ric=False, rhs="own_proj")
    G(tol=1e-10, maxiter=3, rr=False, ric=True)
    G(tol=1e-10, maxiter=4, restart=3, rr=True, ric=True, rhs="own_proj")
    G(tol=1e-4, restart=5, fc=True)
    # the same systems in other units: right-hand sides of norm 1e-7 and 1e+6 (a relative tolerance must stay relative)
    add("lu", rhs="own_proj", fc=False, fs=1e-7)
    G(tol=1e-6, restart=n, rhs="own_proj", fs=1e-7)
    G(tol=1e-8, restart=2 * n, rhs="own_proj" if rd else "lib", fs=1e-3, fc=True, rr=False)
    G(tol=1e-6, restart=n, rhs="own_proj", fs=1e6, ric=False)
    if strong_ok:
        G(tol=1e-6, strong=True, restart=n, rhs="own_coef", fs=1e-7)
    if spd:
        def C(**kw):
            cfg = dict(tol=1e-8, maxiter=None, strong=False, rr=True, ric=True, rhs="own_proj" if rd else "lib", fc=False)
            cfg.update(kw)
            add("cg", **cfg)

        C()
        if strong_ok:
            C(tol=1e-6, strong=True, rhs="own_coef", rr=False, ric=True)
        C(tol=1e-12, rr=True, ric=False, rhs="own_proj")
        C(tol=1e-10, maxiter=2, rr=True, ric=True)
        C(tol=1e-6, rhs="own_proj", fs=1e-7)
        if strong_ok:
            C(tol=1e-8, strong=True, rhs="own_coef", rr=True, ric=True)   # the residual history of the STRONG-form iteration
        if strong_ok:
            C(tol=1e-6, strong=True, rhs="own_coef", fs=1e-6, rr=False)
    if cls in ("blocked", "generalized") and strong_ok:
        # lists of grid functions with MIXED dtypes (one block real, the others complex), as solution (through A * f) and as
        # right-hand side (rhs-first manufacture): the stacked vector must be promoted over all entries
        add("mul", fc="mixed_f")
        add("mul", fc="mixed_f_last")
        add("lu", rhs="lib", fc="mixed_f")
        add("lu", rhs="own_coef", fc="mixed_rhs")
        add("lu", rhs="own_proj", fc="mixed_rhs_last")
        G(tol=1e-8, strong=True, restart=2 * n, rhs="own_coef", fc="mixed_rhs")
        G(tol=1e-8, strong=True, restart=2 * n, rhs="own_proj", fc="mixed_rhs_last", rr=False)
        G(tol=1e-8, strong=True, restart=2 * n, rhs="lib", fc="mixed_f", ric=False)
        G(tol=1e-8, strong=False, restart=2 * n, rhs="own_coef", fc="mixed_rhs_last")
    if not ctx.quick:
        kinds_w = rhs_kinds if not rd else ["own_proj", "own_proj", "lib"]
        for _ in range(4):
            add("lu", rhs=str(rng.choice(kinds_w)), fc=bool(rng.random() < 0.5))
        for _ in range(26):
            G(tol=float(rng.choice(TOLS)), strong=bool(strong_ok and rng.random() < 0.5),
              restart=[None, 5, 10, max(2, n // 2), n, n, 2 * n, 2 * n][int(rng.integers(8))],
              maxiter=[None, None, None, None, 3, 7, max(2, n // 2), 400][int(rng.integers(8))],
              rr=bool(rng.random() < 0.6), ric=bool(rng.random() < 0.6), rhs=str(rng.choice(kinds_w)), fc=bool(rng.random() < 0.35))
        if spd:
            for _ in range(16):
                C(tol=float(rng.choice(TOLS)), strong=bool(strong_ok and rng.random() < 0.5),
                  maxiter=[None, None, None, 2, 5, 400][int(rng.integers(6))],
                  rr=bool(rng.random() < 0.6), ric=bool(rng.random() < 0.6), rhs=str(rng.choice(kinds_w)), fc=bool(rng.random() < 0.35))
    return out


# -------------------------------------------------------------------------------------------------------------- checks
def nrm(x):
    return float(np.linalg.norm(np.asarray(x).ravel()))


def relerr(x, c):
    return nrm(np.asarray(x) - np.asarray(c)) / max(nrm(c), 1e-300)


class Checker:
    def __init__(self, ctx, api, spy):
        self.ctx, self.api, self.spy = ctx, api, spy
        self.stats = {"weak": 0, "strong": 0, "maxiter_hit_gmres": 0, "maxiter_hit_cg": 0, "expected_converge": 0, "expected_fail": 0, "borderline": 0,
                      "spy_records": 0, "spy_missed": 0, "lu_factor_nonsym": 0, "complex_op": 0, "complex_rhs_real_op": 0, "unequal_blocks": 0,
                      "permuted_block_sizes": 0, "cg_weak": 0, "cg_strong": 0, "residual_lists_checked": 0, "counts_checked": 0, "tols": set(),
                      "lib_rhs_skipped": 0, "space_checks": 0, "mixed_dtype_lists": 0, "scaled_data": 0}

    # -------------------------------------------------------------------------------------------- manufactured data
    def draw(self, S, cid, fc, fs=1.0):
        """Manufactured data; `fs` scales it (tolerances of the solvers are RELATIVE: units of the data must not matter)."""
        f, c, p = self._draw(S, cid, fc)
        if fs != 1.0:
            c, p = c * fs, p * fs
            f = [self.api.GridFunction(sp, coefficients=np.asarray(ci).copy()) for sp, ci in zip(S.domains, split(c, S.dom_sizes))]
            if self._mixed_r is not None:
                self._mixed_r = (self._mixed_r[0], [ri * fs for ri in self._mixed_r[1]])
            self.stats["scaled_data"] += 1
        return f, c, p

    def _draw(self, S, cid, fc):
        rng = self.ctx.rng(cid, "f")
        self._mixed_r = None
        if isinstance(fc, str) and fc.startswith("mixed_rhs"):
            # rhs-first: range coefficient blocks r_i with one REAL block and the others complex; p_i = M_i r_i, c = Aw^-1 p
            real_block = len(S.ran_sizes) - 1 if fc.endswith("_last") else 0
            r = [rng.normal(size=m) + (0.0 if i == real_block else 1j * rng.normal(size=m)) for i, m in enumerate(S.ran_sizes)]
            p = np.concatenate([S.M[i] @ ri for i, ri in enumerate(r)])
            c = np.linalg.solve(S.Aw, p)
            self._mixed_r = (real_block, r)
            f = [self.api.GridFunction(sp, coefficients=ci.copy()) for sp, ci in zip(S.domains, split(c, S.dom_sizes))]
            self.stats["mixed_dtype_lists"] += 1
            return f, c, p
        if isinstance(fc, str) and fc.startswith("mixed_f"):
            real_block = len(S.dom_sizes) - 1 if fc.endswith("_last") else 0
            blocks = [rng.normal(size=m) + (0.0 if i == real_block else 1j * rng.normal(size=m)) for i, m in enumerate(S.dom_sizes)]
            f = [self.api.GridFunction(sp, coefficients=bi.copy()) for sp, bi in zip(S.domains, blocks)]
            c = np.concatenate([np.asarray(bi, dtype=complex) for bi in blocks])
            self.stats["mixed_dtype_lists"] += 1
            return f, c, S.Aw @ c
        c = rng.normal(size=S.n)
        if fc:
            c = c + 1j * rng.normal(size=S.n)
        f = [self.api.GridFunction(sp, coefficients=ci.copy()) for sp, ci in zip(S.domains, split(c, S.dom_sizes))]
        p = S.Aw @ c
        return f, c, p

    def vio(self, S, solver, symptom, msg, cid, cfg, extra=None, strong=False):
        mech = ":".join([solver, S.cls] + (["strong_form"] if strong else []) + [symptom])
        data = {"system": S.name, "descr": S.descr, "mesh": S.mesh, "form": S.form, "cfg": cfg, "dom_sizes": S.dom_sizes, "range_sizes": S.ran_sizes,
                "dual_sizes": S.dual_sizes, "cond_weak": S.cond_w, "cond_strong": S.cond_s}
        data.update(extra or {})
        self.ctx.violation(mech, "%s [%s; domain/range/dual dofs %s/%s/%s; %s]: %s" % (cid, S.descr, S.dom_sizes, S.ran_sizes, S.dual_sizes, cfg, msg), cid, data)

    def lib_rhs(self, S, f, p, cid, cfg, report=True):
        """rhs = A * f through the library; verified against the dense model. Returns the rhs or None."""
        rhs = S.A * (f if S.blocked else f[0])
        lst = list(rhs) if S.blocked else [rhs]
        probs = []
        if len(lst) != len(S.ranges):
            probs.append(("result_count", "A*f returned %d functions for %d block rows" % (len(lst), len(S.ranges))))
        else:
            vecs = []
            for i, g in enumerate(lst):
                if not (g.space is S.ranges[i] or g.space == S.ranges[i]):
                    probs.append(("range_space_mismatch", "component %d of A*f is not in range space %d" % (i, i)))
                v = np.asarray(g.projections(S.duals[i])).ravel()
                if v.shape[0] != S.dual_sizes[i]:
                    probs.append(("projection_length", "component %d of A*f carries %d projections onto a dual space with %d dofs (range space has %d dofs)"
                                  % (i, v.shape[0], S.dual_sizes[i], S.ran_sizes[i])))
                vecs.append(v)
            if not probs:
                e = relerr(np.concatenate(vecs), p)
                self.ctx.note_max("worst_rel_A_times_f_vs_model", e)
                if not e <= 1e-11:
                    probs.append(("rhs_wrong", "projections of A*f differ from dense model (weak form @ coefficients): rel %.3e" % e))
        if probs:
            S.lib_rhs_broken = True
            if report:
                for sym, msg in probs[:2]:
                    self.vio(S, "mul", sym, msg, cid, cfg)
            return None
        return rhs

    def make_rhs(self, S, kind, f, p, cid, cfg):
        api = self.api
        if kind == "lib":
            return self.lib_rhs(S, f, p, cid, cfg)
        ps = split(p, S.dual_sizes)
        if self._mixed_r is not None:
            # keep the dtypes of the manufactured blocks: the real block is handed over as a real array
            rb, r = self._mixed_r
            if kind == "own_proj":
                lst = [api.GridFunction(S.ranges[i], projections=(np.real(ps[i]).copy() if i == rb else ps[i].copy()), dual_space=S.duals[i]) for i in range(len(S.ranges))]
            else:
                lst = [api.GridFunction(S.ranges[i], coefficients=r[i].copy()) for i in range(len(S.ranges))]
            return lst
        if kind == "own_proj":
            lst = [api.GridFunction(S.ranges[i], projections=ps[i].copy(), dual_space=S.duals[i]) for i in range(len(S.ranges))]
        elif kind == "own_coef":
            lst = [api.GridFunction(S.ranges[i], coefficients=np.linalg.solve(S.M[i], ps[i])) for i in range(len(S.ranges))]
        else:
            raise ValueError(kind)
        return lst if S.blocked else lst[0]

    def unpack(self, S, sol, solver, cid, cfg, strong=False):
        """Space membership of the returned function(s); returns the concatenated coefficient vector (or None)."""
        self.stats["space_checks"] += 1
        if S.blocked:
            if not isinstance(sol, (list, tuple)) or len(sol) != len(S.domains):
                self.vio(S, solver, "space_mismatch", "expected a list of %d grid functions, got %s" % (len(S.domains), type(sol).__name__ if not isinstance(sol, (list, tuple)) else len(sol)), cid, cfg, strong=strong)
                return None
            lst = list(sol)
        else:
            if isinstance(sol, (list, tuple)):
                self.vio(S, solver, "space_mismatch", "expected one grid function, got a list", cid, cfg, strong=strong)
                return None
            lst = [sol]
        ok = True
        vecs = []
        for j, g in enumerate(lst):
            sp = getattr(g, "space", None)
            if sp is None or not (sp is S.domains[j] or sp == S.domains[j]):
                which = [nm for nm, lst2 in (("range", S.ranges), ("dual", S.duals), ("domain", S.domains)) for q, s2 in enumerate(lst2) if sp is not None and (sp is s2 or sp == s2)]
                self.vio(S, solver, "space_mismatch", "returned function %d lives in a space that is not domain space %d (it equals: %s; %s dofs vs %d)"
                         % (j, j, which or "none of the operator's spaces", getattr(sp, "global_dof_count", "?"), S.dom_sizes[j]), cid, cfg, strong=strong)
                ok = False
            co = np.asarray(g.coefficients).ravel()
            if co.shape[0] != S.dom_sizes[j]:
                self.vio(S, solver, "coefficient_length", "returned function %d has %d coefficients, domain space %d has %d dofs" % (j, co.shape[0], j, S.dom_sizes[j]), cid, cfg, strong=strong)
                ok = False
            vecs.append(co)
        x = np.concatenate(vecs)
        if x.shape[0] != S.n:
            return None
        if not np.all(np.isfinite(x)):
            self.vio(S, solver, "solution_wrong", "returned coefficients are not finite", cid, cfg, strong=strong)
            return None
        return x  # checked against the model even if the space is wrong (the space violation is already recorded)

    # -------------------------------------------------------------------------------------------------------- cases
    def case_mul(self, S, cid, cfg):
        f, c, p = self.draw(S, cid, cfg["fc"], cfg.get("fs", 1.0))
        self.lib_rhs(S, f, p, cid, cfg)

    def case_lu(self, S, cid, cfg):
        api = self.api
        f, c, p = self.draw(S, cid, cfg["fc"], cfg.get("fs", 1.0))
        rhs = self.make_rhs(S, cfg["rhs"], f, p, cid, cfg)
        if rhs is None:
            self.stats["lib_rhs_skipped"] += 1
            return
        tol = 1e-11 * max(1.0, S.cond_w)
        sol = api.lu(S.A, rhs)
        self.ctx.count("solves_lu")
        x = self.unpack(S, sol, "lu", cid, cfg)
        if x is not None:
            e = relerr(x, c)
            self.ctx.note_max("worst_lu_error_over_cond", e / max(1.0, S.cond_w))
            if not e <= tol:
                self.vio(S, "lu", "solution_wrong", "lu(A, rhs[%s]) differs from the manufactured f: rel %.3e > %.1e (= 1e-11 cond)" % (cfg["rhs"], e, tol), cid, cfg, {"rel_error": e})
        _items = rhs if isinstance(rhs, (list, tuple)) else [rhs]
        _was_dual = [g.representation == "dual" for g in _items]

        def snap(r):
            # the data the right-hand side was defined by (projections resp. coefficients), whatever representation it is in later
            return [np.array(g._projections if d else g._coefficients, copy=True) for g, d in zip(_items, _was_dual)]

        fac = api.compute_lu_factors(S.A)
        before = snap(rhs)
        sol2 = api.lu(S.A, rhs, lu_factor=fac)
        self.ctx.count("solves_lu_factor")
        x2 = self.unpack(S, sol2, "lu_factor", cid, cfg)
        # multi-step sequence: the right-hand side is an input (it must come back unchanged), a further solve with the SAME
        # right-hand side object must still solve the stated system, and the first solution must not be aliased by later solves
        after = snap(rhs)
        if any(a.shape != b.shape or not np.array_equal(a, b) for a, b in zip(before, after)):
            self.vio(S, "lu_factor", "right_hand_side_modified", "lu(A, rhs, lu_factor=...) changed the data of its right-hand side grid function(s)", cid, cfg)
        x2_first = None if x2 is None else np.array(x2, copy=True)
        sol3 = api.lu(S.A, rhs, lu_factor=fac)
        x3 = self.unpack(S, sol3, "lu_factor", cid, cfg)
        if x3 is not None:
            e3 = relerr(x3, c)
            if not e3 <= tol:
                self.vio(S, "lu_factor", "second_solve_wrong", "a second lu(A, rhs, lu_factor=...) with the same right-hand side object differs from f: rel %.3e" % e3, cid, cfg, {"rel_error": e3})
        if x2_first is not None:
            x2_again = self.unpack(S, sol2, "lu_factor", cid, cfg)
            if x2_again is not None and not np.array_equal(x2_again, x2_first):
                self.vio(S, "lu_factor", "solution_aliased", "the solution returned by the first solve changed when another solve was run", cid, cfg)
        if S.asym > 1e-3:
            self.stats["lu_factor_nonsym"] += 1
        if x2 is not None:
            e2 = relerr(x2, c)
            if not e2 <= tol:
                self.vio(S, "lu_factor", "solution_wrong", "lu(A, rhs, lu_factor=compute_lu_factors(A)) differs from f: rel %.3e > %.1e" % (e2, tol), cid, cfg, {"rel_error": e2})
            if x is not None:
                d = relerr(x2, x)
                self.ctx.note_max("worst_lu_factor_vs_direct", d)
                if not d <= 1e-12 * max(1.0, S.cond_w):
                    self.vio(S, "lu_factor", "differs_from_direct", "precomputed factors and direct solve differ: rel %.3e" % d, cid, cfg, {"rel_diff": d})

    def reference(self, solver, Amat, b, cfg):
        """The original scipy routine on the dense model, same settings, same (legacy) callback convention."""
        hist = []
        if solver == "gmres":
            x, info = self.spy.orig["gmres"](Amat, b, rtol=cfg["tol"], restart=cfg["restart"], maxiter=cfg["maxiter"], callback=lambda r: hist.append(float(r)), callback_type="legacy")
        else:
            x, info = self.spy.orig["cg"](Amat, b, rtol=cfg["tol"], maxiter=cfg["maxiter"], callback=lambda xk: hist.append(0.0))
        rr = nrm(b - Amat @ x) / nrm(b)
        n = len(b)
        cap = cfg["maxiter"] if cfg["maxiter"] is not None else 10 * n
        # "convergence is to be expected" only with room to spare: a reference run that needs more than 70 % of the iteration
        # budget (slowly converging restarted GMRES) is borderline - rounding differences move the iteration count by a few
        # per cent (thorough tier: reference 1927 of 1940 iterations, library stopped at 1940 with residual 1.4 tol)
        if info == 0 and len(hist) <= max(cap - 2, 1) and (cap <= 20 or len(hist) <= 0.7 * cap) and rr <= cfg["tol"]:
            cls = "converge"
        elif info != 0 and rr > 10 * cfg["tol"]:
            cls = "fail"
        else:
            cls = "borderline"
        return cls, int(info), len(hist), rr

    def case_iter(self, S, cid, solver, cfg):
        api, st = self.api, self.stats
        strong, tol = cfg["strong"], cfg["tol"]
        f, c, p = self.draw(S, cid, cfg["fc"], cfg.get("fs", 1.0))
        rhs = self.make_rhs(S, cfg["rhs"], f, p, cid, cfg)
        if rhs is None:
            st["lib_rhs_skipped"] += 1
            return
        kw = dict(tol=tol, maxiter=cfg["maxiter"], use_strong_form=strong, return_residuals=cfg["rr"], return_iteration_count=cfg["ric"])
        if solver == "gmres":
            kw["restart"] = cfg["restart"]
        _items = rhs if isinstance(rhs, (list, tuple)) else [rhs]
        _was_dual = [g.representation == "dual" for g in _items]
        _before = [np.array(g._projections if d else g._coefficients, copy=True) for g, d in zip(_items, _was_dual)]
        self.spy.begin()
        out = getattr(api, solver)(S.A, rhs, **kw)
        recs = self.spy.end()
        self.ctx.count("solves_" + solver)
        V = lambda sym, msg, extra=None: self.vio(S, solver, sym, msg, cid, cfg, extra, strong=strong)  # noqa: E731
        # the right-hand side is an input: its defining data (projections resp. coefficients it was built from) must not change
        _after = [np.array(g._projections if d else g._coefficients) for g, d in zip(_items, _was_dual)]
        if any(a.shape != b.shape or not np.array_equal(a, b) for a, b in zip(_before, _after)):
            V("right_hand_side_modified", "%s changed the data of its right-hand side grid function(s)" % solver)
        want_len = 2 + int(cfg["rr"]) + int(cfg["ric"])
        if not isinstance(out, tuple) or len(out) != want_len:
            V("return_arity", "expected a %d-tuple (solution, info%s%s), got %s" % (want_len, ", residuals" if cfg["rr"] else "", ", iteration_count" if cfg["ric"] else "",
                                                                              len(out) if isinstance(out, tuple) else type(out).__name__))
            return
        sol, info = out[0], out[1]
        res = out[2] if cfg["rr"] else None
        cnt = out[-1] if cfg["ric"] else None
        if not isinstance(info, (int, np.integer)) or isinstance(info, bool):
            V("info_type", "info is %r (%s), expected an integer" % (info, type(info).__name__))
            return
        info = int(info)
        x = self.unpack(S, sol, solver, cid, cfg, strong=strong)
        if strong:
            Amat = S.As
            b = np.concatenate([np.linalg.solve(S.M[i], pi) for i, pi in enumerate(split(p, S.dual_sizes))])
            cond = S.cond_s
        else:
            Amat, b, cond = S.Aw, p, S.cond_w
        st["strong" if strong else "weak"] += 1
        st["tols"].add(tol)
        if solver == "cg":
            st["cg_strong" if strong else "cg_weak"] += 1
        if not S.cplx and cfg["fc"]:
            st["complex_rhs_real_op"] += 1
        # --- expectation from the reference run
        cls, ref_info, ref_its, ref_rr = self.reference(solver, Amat, b, cfg)
        full = cfg["maxiter"] is None and (solver == "cg" or (cfg["restart"] is not None and cfg["restart"] >= S.n))
        st["expected_" + cls if cls != "borderline" else "borderline"] += 1
        extra = {"info": info, "reference": {"class": cls, "info": ref_info, "iterations": ref_its, "rel_residual": ref_rr}}
        true_abs = true_rel = err = None
        if x is not None:
            true_abs = nrm(b - Amat @ x)
            true_rel = true_abs / nrm(b)
            err = relerr(x, c)
            extra.update(true_rel_residual=true_rel, rel_error=err)
            if info == 0:
                self.ctx.note_max("worst_true_residual_over_tol_at_info0", true_rel / tol)
                if not true_rel <= 5 * tol:
                    V("residual_above_tol", "info == 0 but the true relative residual of the %s system recomputed from the dense model is %.3e > 5*tol = %.1e (reference scipy run on the model: %s, info %d after %d iterations, residual %.2e)"
                      % ("strong-form" if strong else "weak-form", true_rel, 5 * tol, cls, ref_info, ref_its, ref_rr), extra)
                elif not err <= 5 * tol * max(1.0, cond):
                    V("solution_wrong", "info == 0, residual fine, but error vs manufactured f is %.3e > 5 tol cond = %.1e" % (err, 5 * tol * cond), extra)
        if info < 0:
            V("info_negative", "info = %d (illegal input / breakdown) on a well-formed system" % info, extra)
        elif (cls == "converge" or (full and cls != "fail")) and info != 0:
            V("info_nonzero", "convergence was to be expected (reference scipy run on the dense model: info %d after %d iterations, residual %.2e) but info = %d%s"
              % (ref_info, ref_its, ref_rr, info, "" if true_rel is None else ", true residual %.3e" % true_rel), extra)
        elif full and cls == "fail":
            V("not_converged", "%s with %s does not converge on this system although A is %s (reference scipy run on the dense model of the system the code iterates on: info %d after %d iterations, residual %.2e; library info %d)"
              % (solver, "maxiter=None" + ("" if solver == "cg" else ", restart >= n"), "SPD" if solver == "cg" else "invertible", ref_info, ref_its, ref_rr, info), extra)
        if cls == "fail" and info > 0:
            st["maxiter_hit_" + solver] += 1
        if os.environ.get("VERIF_C15_VERBOSE"):
            print("  %-28s %s tol=%.0e restart=%s maxiter=%s strong=%d rhs=%s fc=%s -> ref %s/%d its/%.1e | lib info %d, true %.2e, err %.2e"
                  % (cid, solver, tol, cfg.get("restart"), cfg["maxiter"], strong, cfg["rhs"], cfg["fc"], cls, ref_its, ref_rr, info,
                     -1 if true_rel is None else true_rel, -1 if err is None else err), flush=True)
        # --- bookkeeping monitor
        recs = [r for r in recs if r["solver"] == solver]
        if len(recs) != 1:
            st["spy_missed"] += 1
            return
        rec = recs[0]
        st["spy_records"] += 1
        ncb = rec["cb_calls"]
        extra["callbacks_observed"] = ncb
        if cnt is not None:
            st["counts_checked"] += 1
            if not isinstance(cnt, (int, np.integer)) or int(cnt) != ncb:
                V("iteration_count_mismatch", "iteration_count = %r but scipy.sparse.linalg.%s invoked the callback %d times" % (cnt, solver, ncb), extra)
        if res is not None:
            st["residual_lists_checked"] += 1
            try:
                rl = [float(abs(r)) for r in res]
            except Exception:  # noqa: BLE001
                V("residuals_type", "residuals is %s" % type(res).__name__, extra)
                return
            if len(rl) != ncb:
                V("residuals_length_mismatch", "len(residuals) = %d but the callback was invoked %d times%s" % (len(rl), ncb, "" if cnt is None else " (iteration_count = %r)" % cnt), extra)
            elif ncb:
                if not np.all(np.isfinite(rl)):
                    V("residuals_not_finite", "residual list contains non-finite values", extra)
                    return
                if solver == "gmres":
                    exp = [float(abs(a)) for a in rec["cb_args"]]
                    scale = 1.0
                else:
                    exp = [nrm(b - Amat @ np.asarray(a).ravel()) for a in rec["cb_args"]]
                    scale = nrm(b)
                floor = 1e-13 * max(1.0, cond) * scale
                bad = [k for k in range(ncb) if abs(rl[k] - exp[k]) > 1e-6 * exp[k] + floor]
                if bad:
                    k = bad[0]
                    V("residuals_wrong", "residuals[%d] = %.6e but the %s at that callback is %.6e (%d of %d entries differ)"
                      % (k, rl[k], "value scipy passed to the callback" if solver == "gmres" else "norm of b - A x_k recomputed from the recorded iterate", exp[k], len(bad), ncb), extra)
                if true_abs is not None:
                    final = true_rel if solver == "gmres" else true_abs
                    gap = abs(rl[-1] - final)
                    self.ctx.note_max("worst_last_residual_gap_over_floor", gap / (1e-2 * max(rl[-1], final) + floor))
                    if gap > 1e-2 * max(rl[-1], final) + floor:
                        V("last_residual_inconsistent", "last reported residual %.6e vs %s residual of the returned solution %.6e"
                          % (rl[-1], "relative" if solver == "gmres" else "absolute", final), extra)


# ---------------------------------------------------------------------------------------------------------------- main
def main():
    ctx = Ctx("C15")
    ctx.rule = ("manufactured systems: (mesh) x (operator: Laplace V [SPD], 1/2I-K, Helmholtz V [complex], blocked 2x2 with block sizes ne != nv in straight and "
                "column-permuted order, complex blocked, range/dual dof counts differing [weak form only]; thorough adds full [[V,K],[K',W+M]] Laplace and "
                "Helmholtz, W+M, Maxwell EFIE on RWG/SNC (weak form only: the RWG-SNC Gram matrix is singular), scaled / summed / generalized / nested generalized blocked operators, three meshes) x "
                "(rhs via A*f, via own projections, via own range coefficients; real and complex f) x (lu direct + precomputed factors; gmres over tol "
                "1e-4..1e-12, restart None/5/10/n/2/n/2n, maxiter None/3/7/n/2/400, weak/strong; cg likewise on SPD systems) x the four "
                "return_residuals/return_iteration_count combinations. One evaluation = one solver call checked against the model (a lu case is a direct and a factor solve; a mul case checks A*f only). Distinct = "
                "distinct (system, solver, settings).")
    ctx.assumptions = ["dense weak forms of elementary operators (weak_form().to_dense()) and sparse identity operators are trusted here (decided by C01-C07, C13); the blocked / summed / scaled structure is rebuilt independently with NumPy",
                       "scipy.sparse.linalg.gmres / cg themselves are trusted; they serve, on the dense model, as reference for whether convergence within restart/maxiter is to be expected (margins: >= 2 iterations, factor 10 in residual; otherwise only consistency is demanded)",
                       "well-conditioned = cond(weak form) and cond(strong form) <= 2e3 (checked for every system; systems above are not used and make the run inconclusive)",
                       "lu tolerance 1e-11*cond, factor-vs-direct 1e-12*cond, residual tolerance 5*tol as stated by the property, residual bookkeeping 1e-6 relative + 1e-13*cond floor (last residual vs returned solution: 1e-2 relative + floor)"]
    boot.boot()
    import bempp_cl.api as api
    from vlib import meshes as M, ops as O

    spy = SolverSpy()
    spy.install()
    import scipy.sparse.linalg as spla

    par = O.params(api, 4, 4)
    chk = Checker(ctx, api, spy)
    specs = system_specs(api, M, O, ctx)
    ctx.lap("setup")
    conds = {}
    accepted = 0
    classes_seen = set()
    forms_seen = set()
    for spec in specs:
        n = int(sum(s.global_dof_count for s in spec["domains"]))
        strong_ok = [int(s.global_dof_count) for s in spec["ranges"]] == [int(s.global_dof_count) for s in spec["duals"]] and not spec.get("weak_only", False)
        cases = case_list(spec["name"], spec["cls"], strong_ok, bool(spec.get("spd")), n, ctx)
        cases = [cs for cs in cases if ctx.want(cs[0])]
        if not cases:
            continue
        S = None
        with ctx.guard(spec["name"] + ":build", "build:" + spec["cls"]):
            S = build_system(api, O, par, spec)
        ctx.lap("assembly+jit")
        if S is None:
            continue
        conds[S.name] = {"n": S.n, "cond_weak": round(S.cond_w, 1), "cond_strong": None if not S.strong_ok else round(S.cond_s, 1),
                         "cond_mass": None if not S.strong_ok else round(S.cond_M, 1), "asym": float("%.2e" % S.asym), "complex": S.cplx}
        if not (S.cond_w <= COND_MAX and (not S.strong_ok or S.cond_s <= COND_MAX)):
            ctx.count("systems_rejected_ill_conditioned")
            continue
        accepted += 1
        classes_seen.add(S.cls)
        forms_seen.add(S.form)
        if S.cplx:
            chk.stats["complex_op"] += 1
        if S.unequal_blocks:
            chk.stats["unequal_blocks"] += 1
        if S.permuted_sizes:
            chk.stats["permuted_block_sizes"] += 1
        for cid, solver, cfg in cases:
            strong = bool(cfg.get("strong"))
            prefix = ":".join([solver, S.cls] + (["strong_form"] if strong else []))
            descr = {"system": S.name, "class": S.cls, "form": S.form, "n": S.n, "solver": solver, "cfg": cfg}
            ctx.case(cid, descr)
            with ctx.guard(cid, prefix):
                if solver == "mul":
                    chk.case_mul(S, cid, cfg)
                elif solver == "lu":
                    chk.case_lu(S, cid, cfg)
                else:
                    chk.case_iter(S, cid, solver, cfg)
            spy.begin()
        ctx.lap("solves")

    st = chk.stats
    ctx.note("systems", conds)
    ctx.note("systems_accepted", accepted)
    ctx.note("operator_classes_seen", sorted(classes_seen))
    ctx.note("operator_forms_seen", sorted(forms_seen))
    ctx.note("tolerances_seen", sorted(st["tols"]))
    ctx.note("solver_stats", {k: v for k, v in st.items() if k != "tols"})
    ctx.note("callback_invocations_observed", spy.total_callbacks)
    ctx.note("scipy_solver_calls_observed", spy.total_calls)
    partial = ctx.only_case is not None or bool(ctx.args.only)
    ctx.obligation("scipy.sparse.linalg.gmres/cg are still the wrapped monitors", getattr(spla.gmres, "__wrapped__", None) is spy.orig["gmres"] and getattr(spla.cg, "__wrapped__", None) is spy.orig["cg"])
    ctx.obligation("callback monitor invoked", partial or spy.total_callbacks > 0, spy.total_callbacks)
    ctx.obligation("every iterative solve was observed by exactly one wrapped scipy call", st["spy_missed"] == 0 and (partial or st["spy_records"] > 0), {"observed": st["spy_records"], "missed": st["spy_missed"]})
    ctx.obligation("weak and strong form both seen", partial or (st["weak"] > 0 and st["strong"] > 0), {"weak": st["weak"], "strong": st["strong"]})
    ctx.obligation("blocked systems with unequal block sizes seen, including domain sizes != range sizes position-wise", partial or (st["unequal_blocks"] > 0 and st["permuted_block_sizes"] > 0),
                   {"unequal": st["unequal_blocks"], "permuted": st["permuted_block_sizes"]})
    ctx.obligation("complex operator and complex rhs on real operator seen", partial or (st["complex_op"] > 0 and st["complex_rhs_real_op"] > 0), {"complex_op": st["complex_op"], "complex_rhs_real_op": st["complex_rhs_real_op"]})
    ctx.obligation("maxiter-hit case seen for gmres and cg (reference does not converge, info > 0 reported)", partial or (st["maxiter_hit_gmres"] > 0 and st["maxiter_hit_cg"] > 0),
                   {"gmres": st["maxiter_hit_gmres"], "cg": st["maxiter_hit_cg"]})
    ctx.obligation("cases with expected convergence seen", partial or st["expected_converge"] >= (10 if ctx.quick else 200), st["expected_converge"])
    ctx.obligation("cg on SPD systems in weak and strong form seen", partial or (st["cg_weak"] > 0 and st["cg_strong"] > 0), {"weak": st["cg_weak"], "strong": st["cg_strong"]})
    ctx.obligation("precomputed LU factors exercised on a non-symmetric matrix", partial or st["lu_factor_nonsym"] > 0, st["lu_factor_nonsym"])
    ctx.obligation("tolerances 1e-4 and 1e-12 both seen" if ctx.quick else "all of 1e-4,1e-6,1e-8,1e-10,1e-12 seen",
                   partial or ({1e-4, 1e-12} <= st["tols"] if ctx.quick else set(TOLS) <= st["tols"]), sorted(st["tols"]))
    ctx.obligation("no system of the generator was rejected as ill-conditioned", ctx.counters.get("systems_rejected_ill_conditioned", 0) == 0, conds)
    ctx.obligation("iteration counts and residual lists were compared with the monitor", partial or (st["counts_checked"] > 0 and st["residual_lists_checked"] > 0),
                   {"counts": st["counts_checked"], "residual_lists": st["residual_lists_checked"]})
    if not ctx.quick:
        ctx.obligation("generalized blocked, scaled and summed blocked operators and a Maxwell system seen",
                       partial or ({"generalized", "generalized_nested", "scaled", "sum"} <= forms_seen and any(k.endswith("efie") for k in conds)), sorted(forms_seen))
    ctx.finish()


if __name__ == "__main__":
    main()
