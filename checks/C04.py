"""C04 — operators on a subspace are congruence transforms of those on a larger space; nested refinements agree.

Oracle 1 (to rounding): A_S = T_test^T A_full T_trial with T = S.map_to_full_grid and A_full the same operator on the
full-grid element-wise space with the same local basis (DP0, DP1, element-wise RWG/SNC built with SpaceBuilder).
Oracle 2 (convergence): P^T A_fine P -> A_coarse for grid.refine() and the barycentric refinement, where P is the
prolongation matrix built geometrically by the check.
"""

import numpy as np

from vlib import boot
from vlib.verdict import Ctx, Rejected

TOL = 1e-11


def full_space(api, grid, kind, swapped):
    """Element-wise space on the whole grid with the same local basis."""
    from bempp_cl.api.space.space import SpaceBuilder

    if kind == "DP0":
        return api.function_space(grid, "DP", 0, swapped_normals=swapped)
    if kind in ("DP1", "P1"):
        return api.function_space(grid, "DP", 1, swapped_normals=swapped)
    if kind in ("RWG", "SNC"):
        proto = api.function_space(grid, kind, 0, swapped_normals=swapped, include_boundary_dofs=True)
        ne = grid.number_of_elements
        b = (SpaceBuilder(grid).set_codomain_dimension(3).set_support(np.ones(ne, dtype=bool))
             .set_normal_multipliers(np.asarray(proto.normal_multipliers).copy()).set_order(0).set_is_localised(True)
             .set_shapeset(proto.shapeset.identifier).set_identifier(proto.identifier)
             .set_local2global(np.arange(3 * ne, dtype="uint32").reshape(ne, 3))
             .set_local_multipliers(np.ones((ne, 3), dtype="float64"))
             .set_numba_evaluator(proto.numba_evaluate))
        if proto.has_surface_curl:
            b = b.set_numba_surface_curl(proto.numba_surface_curl)
        return b.build()
    raise ValueError(kind)


KIND_ARGS = {"DP0": ("DP", 0), "DP1": ("DP", 1), "P1": ("P", 1), "RWG": ("RWG", 0), "SNC": ("SNC", 0)}

# (family, op, trial kinds allowed, test kinds allowed, k)
def op_configs(quick):
    scal0 = ("DP0", "DP1", "P1")
    cfg = [("laplace", "single_layer", scal0, scal0, None),
           ("laplace", "double_layer", ("P1", "DP1"), ("P1", "DP1"), None),
           ("laplace", "hypersingular", ("P1",), ("P1",), None),
           ("helmholtz", "single_layer", ("P1", "DP0"), ("P1", "DP0"), 1.1 + 0.3j),
           ("maxwell", "electric_field", ("RWG",), ("SNC",), 0.8),
           ("sparse", "identity", scal0, scal0, None),
           # each hypersingular assembler is a hand-written twin of the others: all three are in the quick tier
           ("helmholtz", "hypersingular", ("P1",), ("P1",), 1.3 - 0.2j),   # Im k < 0 is a wavenumber too
           ("modified_helmholtz", "hypersingular", ("P1",), ("P1",), 0.6)]
    if not quick:
        cfg += [("laplace", "adjoint_double_layer", scal0, scal0, None),
                ("helmholtz", "double_layer", scal0, scal0, 0.9),
                ("helmholtz", "adjoint_double_layer", scal0, scal0, 0.4j + 0.7),
                ("helmholtz", "hypersingular", ("P1", "DP1"), ("P1", "DP1"), 1.3),
                ("modified_helmholtz", "single_layer", scal0, scal0, 0.8),
                ("modified_helmholtz", "double_layer", scal0, scal0, 1.4),
                ("modified_helmholtz", "adjoint_double_layer", scal0, scal0, 0.5),
                ("modified_helmholtz", "hypersingular", ("P1", "DP1"), ("P1", "DP1"), 0.6),
                ("maxwell", "magnetic_field", ("RWG",), ("SNC",), 1.1 - 0.2j),
                ("sparse", "laplace_beltrami", ("P1", "DP1"), ("P1", "DP1"), None),
                ("sparse", "identity", ("RWG",), ("SNC",), None),
                ("sparse", "identity", ("RWG", "SNC"), ("RWG", "SNC"), None)]
    return cfg


def prolongation_p1(coarse_space, fine_space):
    """Coarse continuous P1 -> fine continuous P1, built geometrically (fine vertex = coarse vertex, edge midpoint or centroid)."""
    cg, fg = coarse_space.grid, fine_space.grid
    cV, cE = np.asarray(cg.vertices), np.asarray(cg.elements).astype(int)
    fV = np.asarray(fg.vertices)
    # coarse dof of each coarse vertex
    cdof = -np.ones(cV.shape[1], dtype=int)
    l2g = np.asarray(coarse_space.local2global).astype(int)
    for e in range(cE.shape[1]):
        for l in range(3):
            cdof[cE[l, e]] = l2g[e, l]
    fdof = -np.ones(fV.shape[1], dtype=int)
    fl2g = np.asarray(fine_space.local2global).astype(int)
    fE = np.asarray(fg.elements).astype(int)
    for e in range(fE.shape[1]):
        for l in range(3):
            fdof[fE[l, e]] = fl2g[e, l]
    P = np.zeros((fine_space.global_dof_count, coarse_space.global_dof_count))
    key = lambda x: tuple(np.round(x, 9))  # noqa: E731
    scale = np.abs(cV).max()
    where = {}
    for v in range(cV.shape[1]):
        where.setdefault(key(cV[:, v] / scale), []).append([(v, 1.0)])
    for e in range(cE.shape[1]):
        a, b, c = cE[:, e]
        for (p, q) in ((a, b), (b, c), (c, a)):
            where.setdefault(key(0.5 * (cV[:, p] + cV[:, q]) / scale), []).append([(p, 0.5), (q, 0.5)])
        where.setdefault(key((cV[:, a] + cV[:, b] + cV[:, c]) / 3 / scale), []).append([(a, 1 / 3), (b, 1 / 3), (c, 1 / 3)])
    for v in range(fV.shape[1]):
        ent = where.get(key(fV[:, v] / scale))
        if ent is None:
            raise RuntimeError("fine vertex %d is not a coarse vertex, edge midpoint or centroid" % v)
        for (cv, w) in ent[0]:
            P[fdof[v], cdof[cv]] += w
    return P


def prolongation_dp0(coarse_space, fine_space):
    """Coarse DP0 -> fine DP0: child gets its parent's value; parent found geometrically (centroid inside)."""
    from checks.C11 import _children_report
    from vlib import refmodel as R

    cg, fg = coarse_space.grid, fine_space.grid
    par = _children_report(R, np.asarray(cg.vertices), np.asarray(cg.elements).astype(int), np.asarray(fg.vertices), np.asarray(fg.elements).astype(int))
    if (par < 0).any():
        raise RuntimeError("child without parent")
    P = np.zeros((fine_space.global_dof_count, coarse_space.global_dof_count))
    cl = np.asarray(coarse_space.local2global).astype(int)
    fl = np.asarray(fine_space.local2global).astype(int)
    for c in range(len(par)):
        P[fl[c, 0], cl[par[c], 0]] = 1.0
    return P


def main():
    ctx = Ctx("C04")
    ctx.rule = ("(1) spaces S drawn as (mesh, kind in DP0/DP1/P1/RWG/SNC, segments / support_elements subsets, include_boundary_dofs x truncate_at_segment_edge, "
                "swapped normals), test and trial chosen independently, x operator families: A_S vs T'A_full T to 1e-11; (2) refine()/barycentric nesting with "
                "geometric prolongation along an order ladder. Distinct = distinct (mesh, operator, test config, trial config).")
    ctx.assumptions = ["T is the library's own map_to_full_grid (its content is checked against its definition in C09)",
                       "oracle 2: violated iff the relative difference at the top of the ladder is not >= 30x below the bottom (unless < 1e-9) or is >= 1e-5"]
    boot.boot()
    import bempp_cl.api as api
    from vlib import meshes as M, monitors as mon, ops as O, spaces as S

    rec = mon.LAUNCH.install()
    if not ctx.worker:
        ctx.spawn_san("checks.C04")
    rng0 = ctx.rng("pool")
    mild = dict(jitter=0.05, strength=0.2, min_angle=20.0)
    pool = [("cube6", M.distort(M.cube(face_domains=True), rng0, **mild)),
            ("octa_r1", M.assign_domains(M.distort(M.refine(M.octahedron(), 1), rng0, **mild), rng0, 3, values=[5, 2, 9])),
            ("screen4", M.assign_domains(M.distort(M.screen(4), rng0, **mild), rng0, 3, values=[1, 4, 6]))]
    if not ctx.quick:
        pool += [("multitrace", M.multitrace_cubes()),
                 ("torus", M.assign_domains(M.distort(M.torus(6, 4), rng0, **mild), rng0, 4, values=[3, 0, 8, 12])),
                 ("lprism", M.assign_domains(M.distort(M.l_prism(), rng0, **mild), rng0, 3, values=[0, 1, 2])),
                 ("openbox", M.assign_domains(M.cube_minus_face(), rng0, 2, values=[4, 7]))]
    if ctx.worker == "san":
        pool = pool[:2]
    ncase = (8 if ctx.quick else 60) if not ctx.worker else 3
    par = None
    cover = {}
    worst = 0.0
    full_cache = {}
    noncontig = 0
    for mname, mesh in pool:
        grid = M.to_grid(mesh)
        topo = S.Topo(mesh.V, mesh.E)
        for cfgi, (fam, op, trial_kinds, test_kinds, k) in enumerate(op_configs(ctx.quick)):
            if ctx.worker and cfgi % 3 != 0:
                continue
            for ci in range(ncase):
                cid = "congr:%s:%d.%s.%s:%d" % (mname, cfgi, fam, op, ci)
                if not ctx.want(cid):
                    continue
                rng = ctx.rng(mname, fam, op, ci)
                tk = str(rng.choice(trial_kinds))
                sk = str(rng.choice(test_kinds))
                sw = [int(x) for x in rng.choice(sorted(set(mesh.D.tolist())), size=1)] if ci % 4 == 3 else None
                optsT = S.draw_opts(rng, mesh, topo, *KIND_ARGS[tk], variant=1 + ci)[0] or {}
                optsS = S.draw_opts(rng, mesh, topo, *KIND_ARGS[sk], variant=2 + 3 * ci)[0] or {}
                # test and trial may carry different swapped-normal flags
                sw_test = sw if ci % 8 != 7 else None
                for o, s_ in ((optsT, sw), (optsS, sw_test)):
                    o.pop("swapped_normals", None)
                    if s_:
                        o["swapped_normals"] = s_
                descr = {"mesh": mesh.describe(), "op": fam + "." + op, "k": k, "trial": [tk, S.opts_key(optsT)], "test": [sk, S.opts_key(optsS)]}
                with ctx.guard(cid, "congruence:%s.%s" % (fam, op), allow=S.ALLOWED_REJECTIONS):
                    skip = False
                    for kk, oo in ((tk, optsT), (sk, optsS)):
                        exp = S.expected_entities(topo, mesh.D, *KIND_ARGS[kk], oo)
                        if exp is None or len(exp[1]) == 0:
                            skip = True
                    if skip:
                        ctx.count("skipped_empty_or_nonmanifold_selection")
                        continue
                    if mname == "multitrace" and ("RWG" in (tk, sk) or "SNC" in (tk, sk)) and fam == "maxwell":
                        # whole-grid RWG on a non-manifold grid is outside the space model
                        pass
                    trial = S.make_space(api, grid, *KIND_ARGS[tk], **optsT)
                    test = S.make_space(api, grid, *KIND_ARGS[sk], **optsS)
                    par = O.params(api, 3 + ci % 3, 3 + (ci // 2) % 2)
                    A = O.dense(O.boundary(api, fam, op, trial, test if fam != "maxwell" else trial, test, k, parameters=par))
                    keyT = (mname, tk, tuple(sw or ()))
                    keyS = (mname, sk, tuple(sw_test or ()))
                    for key_, kind_, s_ in ((keyT, tk, sw), (keyS, sk, sw_test)):
                        if key_ not in full_cache:
                            full_cache[key_] = full_space(api, grid, kind_, s_)
                    fT, fS = full_cache[keyT], full_cache[keyS]
                    Afull = O.dense(O.boundary(api, fam, op, fT, fS if fam != "maxwell" else fT, fS, k, parameters=par))
                    Tt = trial.map_to_full_grid.toarray()
                    Ts = test.map_to_full_grid.toarray()
                    B = Ts.T @ Afull @ Tt
                    if A.shape != B.shape:
                        ctx.violation("congruence:shape:%s.%s" % (fam, op), "%s: %s vs %s" % (cid, A.shape, B.shape), cid, data=descr)
                        continue
                    if not (np.all(np.isfinite(A)) and np.all(np.isfinite(Afull))):
                        ctx.violation("congruence:non_finite:%s.%s" % (fam, op), cid, cid, data=descr)
                        continue
                    dev = O.rel(A, B) if max(O.frob(A), O.frob(B)) > 0 else 0.0
                    worst = max(worst, dev)
                    ctx.diff("congr:%s" % cid, A, scale=O.frob(A) / max(1, np.sqrt(A.size)))
                    sup = np.flatnonzero(np.asarray(trial.support))
                    if len(sup) and (sup[0] != 0 and np.any(np.diff(sup) > 1)):
                        noncontig += 1
                    ctx.case(cid, dict(descr, shape=list(A.shape), rel_dev=dev, orders=[par.quadrature.regular, par.quadrature.singular]),
                             nontrivial=A.size >= 4 and O.frob(A) > 0)
                    cover.setdefault(tk, set()).add((optsT.get("include_boundary_dofs"), optsT.get("truncate_at_segment_edge")))
                    cover.setdefault(sk, set()).add((optsS.get("include_boundary_dofs"), optsS.get("truncate_at_segment_edge")))
                    if dev > TOL:
                        cls = "segment_or_support" if ("segments" in optsT or "support_elements" in optsT or "segments" in optsS or "support_elements" in optsS) else "whole_grid"
                        ctx.violation("congruence:mismatch:%s.%s:%s" % (fam, op, cls),
                                      "%s: ||A_S - T'A_full T|| / ||A|| = %.3e (trial %s %s, test %s %s)" % (cid, dev, tk, S.opts_key(optsT), sk, S.opts_key(optsS)),
                                      cid, data=descr)
                for mm, msg in rec.drain():
                    ctx.violation(mm, "%s: %s" % (cid, msg), cid)
    ctx.note("oracle1_worst_rel_dev", worst)
    ctx.note("oracle1_option_coverage", {k: len(v) for k, v in cover.items()})
    ctx.note("trial_supports_not_starting_at_0_and_not_contiguous", noncontig)
    ctx.lap("oracle1")

    # ------------------------------------------------------------------ oracle 2: nested refinements
    if not ctx.worker:
        ladder = [(4, 4), (6, 6), (8, 8), (12, 10)]
        nest = [("octa_r1", M.distort(M.refine(M.octahedron(), 1), rng0, **mild)), ("screen3", M.distort(M.screen(3), rng0, **mild))]
        if not ctx.quick:
            nest += [("cube", M.distort(M.cube(), rng0, **mild)), ("tetra_r1", M.distort(M.refine(M.tetrahedron(), 1), rng0, **mild))]
        levels = [("refine", 1), ("bary", 1)] + ([("refine", 2)] if not ctx.quick else [])
        ops2 = [("laplace", "single_layer", "DP0", None), ("laplace", "hypersingular", "P1", None), ("helmholtz", "single_layer", "P1", 1.1 + 0.3j)]
        if not ctx.quick:
            ops2 += [("laplace", "double_layer", "P1", None), ("modified_helmholtz", "single_layer", "DP0", 0.8)]
        for mname, mesh in nest:
            cg = M.to_grid(mesh)
            for how, lev in levels:
                fg = cg
                for _ in range(lev):
                    fg = fg.refine() if how == "refine" else fg.barycentric_refinement
                for fam, op, kind, k in ops2:
                    cid = "nest:%s:%s%d:%s.%s:%s" % (mname, how, lev, fam, op, kind)
                    if not ctx.want(cid):
                        continue
                    with ctx.guard(cid, "nesting:%s" % how):
                        inc = dict(include_boundary_dofs=True) if kind == "P1" else {}
                        cs = api.function_space(cg, *KIND_ARGS[kind], **inc)
                        # prolongation level by level (a fine vertex is a vertex / edge midpoint / centroid of the grid one level up)
                        P = None
                        g_lo, s_lo = cg, cs
                        for _lv in range(lev):
                            g_hi = g_lo.refine() if how == "refine" else g_lo.barycentric_refinement
                            s_hi = api.function_space(g_hi, *KIND_ARGS[kind], **inc)
                            P_lv = prolongation_p1(s_lo, s_hi) if kind == "P1" else prolongation_dp0(s_lo, s_hi)
                            P = P_lv if P is None else P_lv @ P
                            g_lo, s_lo = g_hi, s_hi
                        fg, fs = g_lo, s_lo
                        devs = []
                        for o in ladder:
                            par = O.params(api, *o)
                            Ac = O.dense(O.boundary(api, fam, op, cs, cs, cs, k, parameters=par))
                            Af = O.dense(O.boundary(api, fam, op, fs, fs, fs, k, parameters=par))
                            devs.append(O.rel(P.T @ Af @ P, Ac))
                        ctx.case(cid, {"mesh": mname, "refinement": how, "levels": lev, "op": fam + "." + op, "space": kind, "ladder": ladder, "rel_dev": devs})
                        top = devs[-1]
                        if not np.isfinite(top) or top >= 1e-5:
                            ctx.violation("nesting:%s:not_small:%s.%s" % (how, fam, op), "%s: relative difference along the ladder %s" % (cid, ["%.2e" % d for d in devs]), cid)
                        elif top > devs[0] / 30 and top > 1e-9:
                            ctx.violation("nesting:%s:no_convergence:%s.%s" % (how, fam, op), "%s: %s" % (cid, ["%.2e" % d for d in devs]), cid)
                    for mm, msg in rec.drain():
                        ctx.violation(mm, "%s: %s" % (cid, msg), cid)
        # ---- the same with `segments=` spaces: the selection on the refined grid must be the refinement of the selection on
        # the coarse grid (children inherit the domain index of their parent), then P' A_fine P -> A_coarse as above
        from checks.C11 import _children_report
        from vlib import refmodel as R_
        rngs = ctx.rng("nest_segments")
        mseg = M.assign_domains(nest[0][1], rngs, 3, values=[4, 1, 6])
        cgs = M.to_grid(mseg)
        doms_s = sorted(set(mseg.D.tolist()))
        for how in ("refine", "bary"):
            fgs = cgs.refine() if how == "refine" else cgs.barycentric_refinement
            par_ = _children_report(R_, np.asarray(cgs.vertices), np.asarray(cgs.elements).astype(int), np.asarray(fgs.vertices), np.asarray(fgs.elements).astype(int))
            for si, seg in enumerate(([doms_s[0]], doms_s[1:]) if ctx.quick else ([doms_s[0]], doms_s[1:], [doms_s[1]], [doms_s[0], doms_s[2]])):
                cid = "nest_segments:%s:%s:seg%s" % (nest[0][0], how, seg)
                if not ctx.want(cid):
                    continue
                with ctx.guard(cid, "nesting:%s:segments" % how):
                    cs = api.function_space(cgs, "DP", 0, segments=list(seg))
                    fs = api.function_space(fgs, "DP", 0, segments=list(seg))
                    csup, fsup = np.asarray(cs.support), np.asarray(fs.support)
                    kids = np.flatnonzero(fsup)
                    factor = 4 if how == "refine" else 6
                    nested = bool(np.all(par_[kids] >= 0) and np.all(csup[par_[kids]]) and len(kids) == factor * int(csup.sum()))
                    if not nested:
                        ctx.case(cid, {"mesh": nest[0][0], "refinement": how, "segments": list(seg), "nested": False})
                        ctx.violation("nesting:%s:segment_selection_not_nested" % how, "%s: segments=%s selects %d fine elements, %d of them with a parent outside the coarse selection (%d coarse elements)"
                                      % (cid, list(seg), len(kids), int(np.sum(~csup[par_[kids]])), int(csup.sum())), cid)
                        continue
                    P = np.zeros((fs.global_dof_count, cs.global_dof_count))
                    cl, fl = np.asarray(cs.local2global).astype(int), np.asarray(fs.local2global).astype(int)
                    for c in kids:
                        P[fl[c, 0], cl[par_[c], 0]] = 1.0
                    devs = []
                    for o in ((4, 4), (8, 8)) if ctx.quick else ladder:
                        par = O.params(api, *o)
                        Ac = O.dense(O.boundary(api, "laplace", "single_layer", cs, cs, cs, parameters=par))
                        Af = O.dense(O.boundary(api, "laplace", "single_layer", fs, fs, fs, parameters=par))
                        devs.append(O.rel(P.T @ Af @ P, Ac))
                    ctx.case(cid, {"mesh": nest[0][0], "refinement": how, "segments": list(seg), "nested": True, "rel_dev": devs})
                    if not np.isfinite(devs[-1]) or devs[-1] >= 1e-4 or (devs[-1] > devs[0] / 10 and devs[-1] > 1e-9):
                        ctx.violation("nesting:%s:segments:no_convergence" % how, "%s: %s" % (cid, ["%.2e" % d for d in devs]), cid)
        ctx.lap("oracle2")

        # -------------------------------------------------------------- oracle 3: the library's own barycentric prolongation
        # space.barycentric_representation() is the same space expressed on the barycentric refinement (same global dofs, its
        # dof_transformation is the prolongation P): an operator assembled on it is P' A_fine P and must equal the operator on
        # the space itself - exactly for the mass matrix (both integrate polynomials exactly), for all kinds and segment variants.
        worst3 = 0.0
        n3 = 0
        for mname, mesh in nest[: (1 if ctx.quick else 3)]:
            rng3 = ctx.rng("bary_nest", mname)
            mesh3 = M.assign_domains(mesh, rng3, 3, values=[4, 1, 6]) if len(set(mesh.D.tolist())) < 2 else mesh
            g3 = M.to_grid(mesh3)
            topo3 = S.Topo(mesh3.V, mesh3.E)
            for kind in ("RWG", "SNC", "P1", "DP0"):
                for vi in range(4 if ctx.quick else 10):
                    cid = "nest_bary_repr:%s:%s:v%d" % (mname, kind, vi)
                    if not ctx.want(cid):
                        continue
                    opts = (S.draw_opts(rng3, mesh3, topo3, *KIND_ARGS[kind], variant=vi)[0] or {}) if vi else {}
                    opts.pop("swapped_normals", None)
                    with ctx.guard(cid, "nesting:barycentric_representation", allow=S.ALLOWED_REJECTIONS):
                        s3 = S.make_space(api, g3, *KIND_ARGS[kind], **opts)
                        b3 = s3.barycentric_representation()
                        if b3 is None:
                            ctx.count("no_barycentric_representation:" + kind)
                            continue
                        par = O.params(api, 4, 4)
                        Ic = O.dense(O.boundary(api, "sparse", "identity", s3, s3, s3, parameters=par))
                        Ib = O.dense(O.boundary(api, "sparse", "identity", b3, b3, b3, parameters=par))
                        dev = O.rel(Ib, Ic) if Ib.shape == Ic.shape else np.inf
                        worst3 = max(worst3, dev if np.isfinite(dev) else 0.0)
                        n3 += 1
                        sup = np.flatnonzero(np.asarray(s3.support))
                        ctx.case(cid, {"mesh": mname, "space": kind, "opts": S.opts_key(opts), "rel_dev": dev, "support_starts_at_0": bool(len(sup) and sup[0] == 0)})
                        if not (dev <= 1e-12):
                            ctx.violation("nesting:barycentric_representation:mass:%s" % kind, "%s: mass matrix on the barycentric representation differs from the mass matrix of the space by %.3e (opts %s)"
                                          % (cid, dev, S.opts_key(opts)), cid)
        ctx.note("oracle3_worst_rel_dev", worst3)
        ctx.note("oracle3_cases", n3)
        ctx.lap("oracle3")
    ctx.note("launch_recorder", rec.summary())
    partial = ctx.only_case is not None or bool(ctx.args.only) or bool(ctx.worker)
    ctx.obligation("P1 and RWG/SNC saw >= 3 option combinations each", partial or all(len(cover.get(k, ())) >= 3 for k in ("P1", "RWG", "SNC")), {k: len(v) for k, v in cover.items()})
    ctx.obligation("a trial support not starting at element 0 and not contiguous was assembled", partial or noncontig > 0, noncontig)
    ctx.finish()


if __name__ == "__main__":
    main()
