"""C06 — hypersingular and Maxwell operators equal their single-layer decompositions.

W_k = sum_c C_c' V0 C_c - k^2 sum_c N_c' V1 N_c,   E_k = -ik sum_c R_c' V1 R_c - 1/(ik) D' V0 D      (to rounding)
with V0 / V1 the single-layer matrices of the same wavenumber and the same quadrature orders on the element-wise constant /
linear spaces, and C, N, R, D sparse maps built here from the vertex coordinates (reference model), composed with the
spaces' own coefficient maps. Plus: W_0 annihilates constants on closed grids; E and H are complex-symmetric for equal edge
spaces up to singular-quadrature error (convergence in the singular order).
"""

import numpy as np

from vlib import boot
from vlib.verdict import Ctx

TOL = 1e-11


def element_geometry(V, E):
    p = [V[:, E[i]].T for i in range(3)]
    a, b = p[1] - p[0], p[2] - p[0]
    cr = np.cross(a, b)
    ie = np.linalg.norm(cr, axis=1)
    n = cr / ie[:, None]
    return p, a, b, ie, n


def curl_maps(V, E, nm):
    """Cloc_c (ne x 3ne): element-wise P1 coefficient (3e+l) -> component c of n x grad_Gamma(phi_l) on element e."""
    p, a, b, ie, n = element_geometry(V, E)
    ne = E.shape[1]
    ref_grad = np.array([[-1.0, 1.0, 0.0], [-1.0, 0.0, 1.0]])
    C = [np.zeros((ne, 3 * ne)) for _ in range(3)]
    for e in range(ne):
        J = np.column_stack([a[e], b[e]])
        JIT = J @ np.linalg.inv(J.T @ J)
        g = JIT @ ref_grad  # (3, 3): column l = surface gradient of phi_l
        for l in range(3):
            cu = nm[e] * np.cross(n[e], g[:, l])
            for c in range(3):
                C[c][e, 3 * e + l] = cu[c]
    return C


def normal_maps(V, E, nm):
    """Nloc_c (3ne x 3ne) diagonal: nodal value of phi_l times component c of the (effective) normal."""
    p, a, b, ie, n = element_geometry(V, E)
    ne = E.shape[1]
    return [np.diag(np.repeat(nm * n[:, c], 3)) for c in range(3)]


def rwg_maps(V, E):
    """Rloc_c (3ne x 3ne): element-wise RWG coefficient (3e+l) -> DP1 nodal values (3e+m) of component c;
    Dloc (ne x 3ne): divergence 2 l_l / (2A) on the element."""
    p, a, b, ie, n = element_geometry(V, E)
    ne = E.shape[1]
    opp = [2, 1, 0]           # vertex opposite to local edge l (edges: (v0,v1), (v2,v0), (v1,v2))
    ends = [(0, 1), (2, 0), (1, 2)]
    R = [np.zeros((3 * ne, 3 * ne)) for _ in range(3)]
    D = np.zeros((ne, 3 * ne))
    for e in range(ne):
        for l in range(3):
            L = np.linalg.norm(p[ends[l][0]][e] - p[ends[l][1]][e])
            D[e, 3 * e + l] = 2 * L / ie[e]
            for m in range(3):
                f = L / ie[e] * (p[m][e] - p[opp[l]][e])
                for c in range(3):
                    R[c][3 * e + m, 3 * e + l] = f[c]
    return R, D


def main():
    ctx = Ctx("C06")
    ctx.rule = ("(mesh closed/open, space options incl. segments, boundary dofs, swapped normals) x wavenumber (0, real, complex, modified) x quadrature orders: "
                "hypersingular and electric-field matrices vs their decompositions built from V0/V1 of the same orders (1e-11 relative); W_0*1 = 0; "
                "complex symmetry of E and H by convergence in the singular order. Distinct = (mesh, operator, k, options).")
    ctx.assumptions = ["C, N, R, D are built from vertex coordinates by the check (vlib-independent of bempp code), composed with the spaces' map_to_full_grid",
                       "V0/V1 come from the library at the same orders (their own correctness is C01/C03/C05's business)"]
    boot.boot()
    import bempp_cl.api as api
    from vlib import meshes as M, monitors as mon, ops as O, spaces as S
    from checks.C04 import full_space

    rec = mon.LAUNCH.install()
    if not ctx.worker:
        ctx.spawn_san("checks.C06")
    rng0 = ctx.rng("pool")
    mild = dict(jitter=0.05, strength=0.2, min_angle=20.0)
    pool = [("octa_r1", M.assign_domains(M.distort(M.refine(M.octahedron(), 1), rng0, **mild), rng0, 3, values=[5, 2, 9]), True),
            ("screen3", M.assign_domains(M.distort(M.screen(3), rng0, **mild), rng0, 2, values=[1, 4]), False),
            ("cube6", M.distort(M.cube(face_domains=True), rng0, **mild), True)]
    if not ctx.quick:
        pool += [("torus", M.assign_domains(M.distort(M.torus(6, 4), rng0, **mild), rng0, 3, values=[3, 0, 8]), True),
                 ("openbox", M.assign_domains(M.cube_minus_face(), rng0, 2, values=[4, 7]), False),
                 ("lprism", M.assign_domains(M.distort(M.l_prism(), rng0, **mild), rng0, 3, values=[0, 1, 2]), True),
                 ("two_solids", M.two_solids(), True)]
    if ctx.worker == "san":
        pool = pool[:2]
    # (a purely imaginary wavenumber is forwarded by the Helmholtz constructors to the modified Helmholtz ones: its own code path)
    ks = [None, 1.3, 0.9 + 0.4j, 1.1j] if ctx.quick or ctx.worker else [None, 1.3, 0.9 + 0.4j, 1.1j, 1e-3, 3.0 + 0.1j, ("mod", 0.8), ("mod", 2.5)]
    nopt = 3 if ctx.quick or ctx.worker else 10
    worst = {"W": 0.0, "E": 0.0, "W1": 0.0}
    for mname, mesh, closed in pool:
        grid = M.to_grid(mesh)
        topo = S.Topo(mesh.V, mesh.E)
        for oi in range(nopt):
            rng = ctx.rng(mname, oi)
            sw = [int(rng.choice(sorted(set(mesh.D.tolist()))))] if oi % 3 == 2 else None
            # test and trial spaces may carry different swapped-normal flags
            sw_test = sw if oi % 2 == 0 else ([int(rng.choice(sorted(set(mesh.D.tolist()))))] if oi % 3 != 0 else None)
            order = (3 + oi % 3, 3 + oi % 2)
            par = O.params(api, *order)
            V0s, V1s = {}, {}
            nmv = np.where(np.isin(mesh.D, sw or []), -1.0, 1.0)
            nmv_test = np.where(np.isin(mesh.D, sw_test or []), -1.0, 1.0)
            dp0 = full_space(api, grid, "DP0", sw)
            dp1 = full_space(api, grid, "DP1", sw)

            def VV(k, which):
                cache = V0s if which == 0 else V1s
                if k not in cache:
                    sp = dp0 if which == 0 else dp1
                    if k is None:
                        cache[k] = O.dense(O.boundary(api, "laplace", "single_layer", sp, sp, sp, parameters=par))
                    elif isinstance(k, tuple):
                        cache[k] = O.dense(O.boundary(api, "modified_helmholtz", "single_layer", sp, sp, sp, k[1], parameters=par))
                    else:
                        cache[k] = O.dense(O.boundary(api, "helmholtz", "single_layer", sp, sp, sp, k, parameters=par))
                return cache[k]

            # ---------------------------------------------------------------- hypersingular
            optsA = S.draw_opts(rng, mesh, topo, "P", 1, variant=oi)[0] or {}
            optsB = S.draw_opts(rng, mesh, topo, "P", 1, variant=2 * oi + 1)[0] or {}
            if sw != sw_test:
                # make sure the differing flag matters: the test space then lives on the whole grid
                optsB = {k_: v_ for k_, v_ in optsB.items() if k_ not in ("segments", "support_elements")}
                if oi % 4 == 1:
                    optsA = {k_: v_ for k_, v_ in optsA.items() if k_ not in ("segments", "support_elements")}
            for o, s_ in ((optsA, sw), (optsB, sw_test)):
                o.pop("swapped_normals", None)
                if s_:
                    o["swapped_normals"] = s_
            Cl = curl_maps(mesh.V, mesh.E, nmv)
            Nl = normal_maps(mesh.V, mesh.E, nmv)
            Cls = curl_maps(mesh.V, mesh.E, nmv_test)
            Nls = normal_maps(mesh.V, mesh.E, nmv_test)
            # complex wavenumbers with Im k > 0 on even option indices, Im k < 0 on odd ones
            for k in [(np.conj(k_) if (isinstance(k_, complex) and oi % 2 == 1) else k_) for k_ in ks]:
                cid = "W:%s:opt%d:k=%s" % (mname, oi, k)
                if not ctx.want(cid):
                    continue
                with ctx.guard(cid, "hypersingular_decomposition", allow=S.ALLOWED_REJECTIONS):
                    ok = True
                    for oo in (optsA, optsB):
                        exp = S.expected_entities(topo, mesh.D, "P", 1, oo)
                        if exp is None or len(exp[1]) == 0:
                            ok = False
                    if not ok:
                        ctx.count("skipped_empty_selection")
                        continue
                    trial = S.make_space(api, grid, "P", 1, **optsA)
                    test = S.make_space(api, grid, "P", 1, **optsB)
                    if k is None:
                        W = O.dense(O.boundary(api, "laplace", "hypersingular", trial, test, test, parameters=par))
                        k2 = 0.0
                    elif isinstance(k, tuple):
                        W = O.dense(O.boundary(api, "modified_helmholtz", "hypersingular", trial, test, test, k[1], parameters=par))
                        k2 = -(k[1] ** 2)
                    else:
                        W = O.dense(O.boundary(api, "helmholtz", "hypersingular", trial, test, test, k, parameters=par))
                        k2 = k * k
                    Tt = trial.map_to_full_grid.toarray()
                    Ts = test.map_to_full_grid.toarray()
                    V0 = VV(k, 0)
                    ref = sum((Cls[c] @ Ts).T @ V0 @ (Cl[c] @ Tt) for c in range(3))
                    if k2 != 0:
                        V1 = VV(k, 1)
                        ref = ref - k2 * sum((Nls[c] @ Ts).T @ V1 @ (Nl[c] @ Tt) for c in range(3))
                    dev = O.rel(W, ref)
                    worst["W"] = max(worst["W"], dev)
                    ctx.diff("W:%s" % cid, W, scale=O.frob(W) / max(1.0, np.sqrt(W.size)))
                    ctx.case(cid, {"mesh": mesh.describe(), "op": "hypersingular", "k": k, "orders": order, "trial": S.opts_key(optsA), "test": S.opts_key(optsB), "rel_dev": dev})
                    if sw != sw_test:
                        ctx.count("hypersingular_cases_with_different_test_trial_normal_flags")
                    if not np.all(np.isfinite(W)) or dev > TOL:
                        fam = "laplace" if k is None else ("modified_helmholtz" if isinstance(k, tuple) else "helmholtz")
                        ctx.violation("decomposition:hypersingular:" + fam, "%s: ||W - (C'V0C - k^2 N'V1N)|| / ||W|| = %.3e" % (cid, dev), cid)
                    if k is None and closed and not any(x in optsA for x in ("segments", "support_elements")):
                        one = np.ones(trial.global_dof_count)
                        r1 = np.linalg.norm(W @ one) / max(O.frob(W), 1e-300)
                        worst["W1"] = max(worst["W1"], r1)
                        if r1 > 1e-12:
                            ctx.violation("hypersingular:constants_not_annihilated", "%s: ||W 1|| / ||W|| = %.3e" % (cid, r1), cid)
                for mm, msg in rec.drain():
                    ctx.violation(mm, "%s: %s" % (cid, msg), cid)

            # ---------------------------------------------------------------- Maxwell electric field
            optsR = S.draw_opts(rng, mesh, topo, "RWG", 0, variant=oi)[0] or {}
            optsS = dict(optsR) if oi % 2 == 0 else (S.draw_opts(rng, mesh, topo, "SNC", 0, variant=3 * oi + 1)[0] or {})
            for o in (optsR, optsS):
                o.pop("swapped_normals", None)
                if sw:
                    o["swapped_normals"] = sw
            Rl, Dl = rwg_maps(mesh.V, mesh.E)
            for k in [(np.conj(x) if (isinstance(x, complex) and oi % 2 == 1) else x) for x in ks if x is not None and not isinstance(x, tuple)]:
                cid = "E:%s:opt%d:k=%s" % (mname, oi, k)
                if not ctx.want(cid):
                    continue
                with ctx.guard(cid, "efield_decomposition", allow=S.ALLOWED_REJECTIONS):
                    ok = True
                    for kk, oo in (("RWG", optsR), ("SNC", optsS)):
                        exp = S.expected_entities(topo, mesh.D, kk, 0, oo)
                        if exp is None or len(exp[1]) == 0:
                            ok = False
                    if not ok:
                        ctx.count("skipped_empty_selection")
                        continue
                    rwg = S.make_space(api, grid, "RWG", 0, **optsR)
                    snc = S.make_space(api, grid, "SNC", 0, **optsS)
                    Em = O.dense(O.boundary(api, "maxwell", "electric_field", rwg, rwg, snc, k, parameters=par))
                    Tt = rwg.map_to_full_grid.toarray()
                    Ts = snc.map_to_full_grid.toarray()
                    V0, V1 = VV(k, 0), VV(k, 1)
                    ref = -1j * k * sum((Rl[c] @ Ts).T @ V1 @ (Rl[c] @ Tt) for c in range(3)) - (1.0 / (1j * k)) * (Dl @ Ts).T @ V0 @ (Dl @ Tt)
                    dev = O.rel(Em, ref)
                    worst["E"] = max(worst["E"], dev)
                    ctx.diff("E:%s" % cid, Em, scale=O.frob(Em) / max(1.0, np.sqrt(Em.size)))
                    ctx.case(cid, {"mesh": mesh.describe(), "op": "electric_field", "k": k, "orders": order, "trial": S.opts_key(optsR), "test": S.opts_key(optsS), "rel_dev": dev})
                    if not np.all(np.isfinite(Em)) or dev > TOL:
                        ctx.violation("decomposition:electric_field", "%s: ||E - (-ik R'V1R - 1/(ik) D'V0D)|| / ||E|| = %.3e" % (cid, dev), cid)
                for mm, msg in rec.drain():
                    ctx.violation(mm, "%s: %s" % (cid, msg), cid)
    ctx.note("worst_rel_dev", worst)
    ctx.lap("decompositions")

    # -------------------------------------------------------------------- complex symmetry of E and H
    if not ctx.worker:
        sym_pool = pool[:2] if ctx.quick else pool[:5]
        orders = [4, 8, 10] if ctx.quick else [4, 6, 8, 10]
        for mname, mesh, closed in sym_pool:
            grid = M.to_grid(mesh)
            for opname in (("electric_field", "magnetic_field") if not ctx.quick else ("magnetic_field", "electric_field")):
                for k in ([1.2] if ctx.quick else [1.2, 0.7 + 0.5j]):
                    cid = "sym:%s:%s:k=%s" % (mname, opname, k)
                    if not ctx.want(cid):
                        continue
                    with ctx.guard(cid, "maxwell_symmetry"):
                        inc = dict(include_boundary_dofs=True) if not closed else {}
                        rwg = api.function_space(grid, "RWG", 0, **inc)
                        snc = api.function_space(grid, "SNC", 0, **inc)
                        asym = []
                        for s in orders:
                            A = O.dense(O.boundary(api, "maxwell", opname, rwg, rwg, snc, k, parameters=O.params(api, 6, s)))
                            asym.append(O.frob(A - A.T) / O.frob(A))
                        ctx.case(cid, {"mesh": mname, "op": opname, "k": k, "singular_orders": orders, "asymmetry": asym})
                        top = asym[-1]
                        if not np.isfinite(top) or (top > asym[0] / 30 and top > 1e-10) or top > 1e-5:
                            ctx.violation("maxwell:%s:not_complex_symmetric" % opname, "%s: ||A - A^T|| / ||A|| by singular order %s" % (cid, ["%.2e" % a for a in asym]), cid)
                    for mm, msg in rec.drain():
                        ctx.violation(mm, "%s: %s" % (cid, msg), cid)
        ctx.lap("symmetry")

    # ------------------------------------------------------------------ two DIFFERENT grids (coupling block between two bodies): same decomposition,
    # C and N are the maps of the two spaces, V0/V1 the single layer between the element-wise spaces of the two grids.
    # (No singular part exists between different grids: the regular assemblers must integrate every element pair.)
    if not ctx.worker:
        rng2 = ctx.rng("two_grids")
        mA = M.distort(M.refine(M.octahedron(), 1), rng2, **mild)                      # test grid, 32 elements
        mB = M.distort(M.cube(), rng2, **mild)                                         # trial grid, 12 elements (another numbering and size)
        mB.V = mB.V * 0.7 + np.array([[2.6], [0.4], [-0.3]])
        gA, gB = M.to_grid(mA), M.to_grid(mB)
        onesA, onesB = np.ones(mA.ne), np.ones(mB.ne)
        ClA, NlA = curl_maps(mA.V, mA.E, onesA), normal_maps(mA.V, mA.E, onesA)
        ClB, NlB = curl_maps(mB.V, mB.E, onesB), normal_maps(mB.V, mB.E, onesB)
        par = O.params(api, 5, 4)
        testA, trialB = api.function_space(gA, "P", 1), api.function_space(gB, "P", 1)
        TsA, TtB = testA.map_to_full_grid.toarray(), trialB.map_to_full_grid.toarray()
        d0A, d0B = full_space(api, gA, "DP0", None), full_space(api, gB, "DP0", None)
        d1A, d1B = full_space(api, gA, "DP1", None), full_space(api, gB, "DP1", None)
        for k in [None, 1.3 - 0.2j, ("mod", 0.8)] + ([] if ctx.quick else [2.1, ("mod", 2.0)]):
            cid = "W_two_grids:octa_r1<-cube:k=%s" % (k,)
            if not ctx.want(cid):
                continue
            with ctx.guard(cid, "hypersingular_decomposition:two_grids"):
                fam = "laplace" if k is None else ("modified_helmholtz" if isinstance(k, tuple) else "helmholtz")
                kk = None if k is None else (k[1] if isinstance(k, tuple) else k)
                k2 = 0.0 if k is None else (-(kk ** 2) if isinstance(k, tuple) else kk * kk)
                W = O.dense(O.boundary(api, fam, "hypersingular", trialB, testA, testA, kk, parameters=par))
                V0 = O.dense(O.boundary(api, fam, "single_layer", d0B, d0A, d0A, kk, parameters=par))
                ref = sum((ClA[c] @ TsA).T @ V0 @ (ClB[c] @ TtB) for c in range(3))
                if k2 != 0:
                    V1 = O.dense(O.boundary(api, fam, "single_layer", d1B, d1A, d1A, kk, parameters=par))
                    ref = ref - k2 * sum((NlA[c] @ TsA).T @ V1 @ (NlB[c] @ TtB) for c in range(3))
                dev = O.rel(W, ref)
                worst["W"] = max(worst["W"], dev)
                ctx.case(cid, {"test_grid": mA.describe(), "trial_grid": mB.describe(), "op": fam + ".hypersingular", "k": kk, "rel_dev": dev})
                if not np.all(np.isfinite(W)) or dev > TOL:
                    ctx.violation("decomposition:hypersingular:%s:two_grids" % fam, "%s: ||W - (C'V0C - k^2 N'V1N)|| / ||W|| = %.3e" % (cid, dev), cid)
            for mm, msg in rec.drain():
                ctx.violation(mm, "%s: %s" % (cid, msg), cid)
        ctx.lap("two_grids")
    ctx.note("launch_recorder", rec.summary())
    ctx.finish()


if __name__ == "__main__":
    main()
