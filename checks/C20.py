"""C20 — OpenCL and Numba backends define the same kernels and shape functions.

Sanitizer proper + differential testing.  There is no OpenCL runtime here, so the OpenCL sources are compiled
AS OPENCL C for the host by clang 14 (real OpenCL front end: its conversion, swizzle and literal rules apply)
with AddressSanitizer + UBSan, one generated wrapper per function parsed out of kernels.h and the four shapeset
headers (vlib/cl/gen.py), the OpenCL builtins supplied by C++ shims (vlib/cl/shims.cpp) and a standalone driver
(vlib/cl/driver.cpp).  Everything is rebuilt on every run from the CURRENT headers of the tree under test.

Oracles, per kernel function (name_{novec,vec4,vec8,vec16}) and precision (single, double):
 * the Numba kernel the repo's own tables pair it with: `select_cl_kernel` (read through the pyopencl import
   stub) gives kernel_type -> OpenCL name, `select_numba_kernels` gives kernel_type -> Numba function, regular
   (one test point, many trial points with their normals; all variants) and singular (point pairs, one normal
   each; _novec).  `helmholtz_gradient` has no table entry: its Numba counterpart is the gradient part of
   `bempp_cl.api.fmm.helpers.helmholtz_kernel`;
 * an independent reference written from the definitions G = exp(ikr)/(4 pi r), dG/dn_y, dG/dn_x, grad_x G,
   exp(-ik x.y)/(4 pi), -ik (x.n_y) exp(-ik x.y)/(4 pi), evaluated in long double on the SAME rounded inputs.
   It does not decide the verdict (the property is OpenCL == Numba); it says which side is wrong.
Inputs: distances log-uniform in [1e-3, 1e3], random unit normals, k real / complex / negative / zero with
|Im k| r <= 30, omega > 0 with omega r <= 30; every lane of every vector variant carries its own point.

Tolerance (derived, not tuned).  With u = eps/2: diff 1u, r = sqrt(sum of squares) <= 2.5u, the argument k*r of
cos/sin/exp carries <= 3.5u*|k|r absolute, libm 1u, r^3 / rsqrt^3 <= 4u, the normal product 3u relative to
|d||n|, the remaining products <= 6u: each backend is within ~ (8 + 4|k|r) eps of the exact value relative to the
kernel's magnitude scale S (S = |G| for single layer, |G|(1+|k|r)/r for the normal derivatives and the gradient,
1/(4 pi) resp. |k||x|/(4 pi) for the far field with |x||y| in the role of r), so two correct backends differ by
<= ~20 eps (1+|k|r) S.  Observed on the unchanged tree: <= 5.9 over 3.9e7 pairs (evidence `max_units_*`).  Threshold C_TOL = 640
eps (1+|k|r) S: 7.6e-5 in single, 1.4e-13 in double, i.e. > 100x above what is observed and 4 (single) resp. 6
(double: a float literal is a 4e-8 error) orders below any sign, constant, lane or literal error.
Shape functions: |OpenCL - Numba| <= 4 eps_type at every local point (values are O(1)).
"""

import re
import types
from concurrent.futures import ThreadPoolExecutor

import numpy as np

from vlib import boot
from vlib.verdict import Ctx

C_TOL = 640.0
SHAPE_TOL = 4.0  # in eps of the type
T = 16  # trial points per group = widest vector
VARIANTS = {"novec": 1, "vec4": 4, "vec8": 8, "vec16": 16}
NPARAMS_CL = {"laplace": 1, "helmholtz": 2, "modified_helmholtz": 1}  # opencl_assemblers: empty options -> [0.0]
NPARAMS_NB = {"laplace": 0, "helmholtz": 2, "modified_helmholtz": 1}  # numba_assemblers: np.array(options)
# OpenCL kernel families without an entry in select_cl_kernel: (module, Numba function, pde)
GRADIENT_COUNTERPARTS = {"helmholtz_gradient": ("bempp_cl.api.fmm.helpers", "helmholtz_kernel", "helmholtz")}
L = np.longdouble
CL = np.clongdouble


# --------------------------------------------------------------------------------------------- tables
def read_tables(ctx, families):
    """kernel_type -> dict(cl=<OpenCL family>, regular=<Numba fn>, singular=<Numba fn or None>) from the repo's own tables."""
    import bempp_cl.core.numba_kernels as nk
    import bempp_cl.core.opencl_kernels as ok

    assert getattr(__import__("pyopencl"), "VERIF_STUB", False), "expected the pyopencl import stub"
    cands = set(families) | {f.replace("_real", "") for f in families}
    for name in dir(nk):
        if name.startswith("_") or not callable(getattr(nk, name)):
            continue
        cands.add(name)
        for suf in ("_regular", "_singular"):
            if name.endswith(suf):
                cands.add(name[: -len(suf)])
    table = {}
    for kt in sorted(cands):
        desc = types.SimpleNamespace(kernel_type=kt, assembly_type="default_scalar", precision="double")
        ent = {}
        try:
            ent["cl"] = ok.select_cl_kernel(desc, "regular")[1]
        except KeyError:
            pass
        for mode in ("regular", "singular"):
            try:
                ent[mode] = nk.select_numba_kernels(desc, mode)[1]
            except KeyError:
                ent[mode] = None
        if "cl" in ent or ent["regular"] is not None or ent["singular"] is not None:
            table[kt] = ent
    return table


def classify(kernel_type):
    m = re.match(r"(laplace|modified_helmholtz|helmholtz)_(far_field_)?(single_layer|double_layer|adjoint_double_layer|gradient)$", kernel_type)
    if not m:
        return None
    return {"pde": m.group(1), "far": bool(m.group(2)), "layer": m.group(3)}


# --------------------------------------------------------------------------------------------- inputs
def unit(v):
    return v / np.linalg.norm(v, axis=-1, keepdims=True)


def make_data(rng, kind, dataset, G, dt):
    """Random inputs, already rounded to the type. Shapes: x (G,Tx,3) with Tx = 1 (regular) or T (singular), y (G,T,3),
    nx (G,1,3), ny (G,T,3) (regular) or (G,1,3) (singular), kre/kim/omega (G,)."""
    pde, far = kind["pde"], kind["far"]
    D = {"dataset": dataset, "G": G}
    if far:
        x = unit(rng.normal(size=(G, 1, 3))) * 10 ** rng.uniform(-0.3, 0.3, size=(G, 1, 1))
        x[: G // 2] = unit(x[: G // 2])  # half of them exact directions
        y = rng.uniform(-1, 1, size=(G, T, 3)) * 10 ** rng.uniform(-1, 1.5, size=(G, 1, 1))
        rmax = np.linalg.norm(y, axis=-1).max(axis=1) * np.linalg.norm(x[:, 0], axis=-1)
    else:
        s = 10 ** rng.uniform(-1, 0.5, size=(G, 1, 1))
        Tx = 1 if dataset == "R" else T
        x = rng.uniform(-1, 1, size=(G, Tx, 3)) * s
        lrmax = rng.uniform(-2, 3, size=(G, 1))
        lr = -3 + (lrmax + 3) * rng.uniform(0, 1, size=(G, T))  # log-uniform in [1e-3, rmax_g]
        lr[:, 0] = -3 + 1e-3  # both ends of the range in every group
        lr[:, 1] = lrmax[:, 0]
        r = 10 ** lr
        y = x + unit(rng.normal(size=(G, T, 3))) * r[:, :, None]
        rmax = 10 ** lrmax[:, 0]
    nx = unit(rng.normal(size=(G, 1, 3)))
    ny = unit(rng.normal(size=(G, T if dataset == "R" else 1, 3)))
    # a few axis-aligned normals / tangential configurations
    nx[::7] = np.eye(3)[rng.integers(0, 3, size=nx[::7].shape[0])][:, None, :]
    cls = np.arange(G) % 5
    kre = 10 ** rng.uniform(-2, 1.7, size=G)
    kim = rng.uniform(0.05, 1.0, size=G) * 30.0 / (rmax * 1.02)
    kim = np.where(cls == 0, 0.0, kim)
    kim = np.where(cls == 2, -kim, kim)
    kre = np.where(cls == 3, -kre, kre)
    kre = np.where(cls == 4, 0.0, kre)
    kim = np.where((cls == 4) & (np.arange(G) % 10 == 4), 0.0, kim)  # k == 0 exactly
    omega = 10 ** rng.uniform(-3, 0, size=G) * 30.0 / (rmax * 1.02)
    D["kclass"] = cls
    for key, val in (("x", x), ("y", y), ("nx", nx), ("ny", ny), ("kre", kre), ("kim", kim), ("omega", omega)):
        D[key] = np.ascontiguousarray(val.astype(dt))
    if pde == "laplace":
        D["p_cl"] = np.zeros((G, 1), dtype=dt)
        D["p_nb"] = np.zeros((G, 0), dtype=dt)
    elif pde == "modified_helmholtz":
        D["p_cl"] = D["p_nb"] = D["omega"][:, None].copy()
    else:
        D["p_cl"] = D["p_nb"] = np.ascontiguousarray(np.stack([D["kre"], D["kim"]], axis=1))
    assert D["p_cl"].shape[1] == NPARAMS_CL[pde] and D["p_nb"].shape[1] == NPARAMS_NB[pde]
    return D


def reference(kind, D):
    """(value (G,T[,3]) long double / complex long double, scale (G,T), cond (G,T)) on the rounded inputs."""
    pde, far, layer = kind["pde"], kind["far"], kind["layer"]
    x, y, nx, ny = (D[k].astype(L) for k in ("x", "y", "nx", "ny"))
    G = x.shape[0]
    four_pi = L(16) * np.arctan(L(1))  # 4*pi in long double
    if pde == "laplace":
        k = np.zeros((G, 1), dtype=CL)
    elif pde == "modified_helmholtz":
        k = (1j * D["omega"].astype(L)).astype(CL)[:, None]
    else:
        k = (D["kre"].astype(L) + 1j * D["kim"].astype(L)).astype(CL)[:, None]
    if far:
        # both backends use Re k only (kernel_parameters[0]); the treatment of Im k in the far field is C08's business
        kk = k.real
        dotp = np.sum(x * y, axis=-1)
        e = np.exp(-1j * kk * dotp) / four_pi
        ax = np.linalg.norm(x, axis=-1)
        cond = 1 + np.abs(kk) * ax * np.linalg.norm(y, axis=-1)
        if layer == "single_layer":
            return e, np.ones_like(dotp) / four_pi, cond
        if layer == "double_layer":
            return -1j * kk * np.sum(x * ny, axis=-1) * e, np.abs(kk) * ax / four_pi + 0 * dotp, cond
        return None
    d = y - x
    r = np.sqrt(np.sum(d * d, axis=-1))
    g0 = np.exp(1j * k * r) / (four_pi * r)
    ak = np.abs(k)
    cond = 1 + ak * r
    a0 = np.abs(g0)
    if layer == "single_layer":
        val, scale = g0, a0
    elif layer == "double_layer":
        val, scale = g0 * (1j * k - 1 / r) * np.sum(d * ny, axis=-1) / r, a0 * cond / r
    elif layer == "adjoint_double_layer":
        val, scale = g0 * (1j * k - 1 / r) * np.sum(-d * nx, axis=-1) / r, a0 * cond / r
    elif layer == "gradient":
        val, scale = (g0 * (1j * k - 1 / r) / r)[..., None] * (-d), a0 * cond / r
    else:
        return None
    if pde != "helmholtz":
        val = val.real
    return val, scale, cond


# --------------------------------------------------------------------------------------------- OpenCL side
def signature_ok(spec, N):
    """(test point, trial point(s), test normal, trial normal(s), params, result) as the .cl assemblers call it."""
    ins = spec["ins"]
    if len(ins) != 4 or not spec["has_params"] or len(spec["outs"]) != 1:
        return False
    want = [(3, []), (3, []), (3, []), (3, [])] if N == 1 else [(3, []), (N, [3]), (3, []), (N, [3])]
    if [(e["width"], e["dims"]) for e in ins] != want:
        return False
    kinds = [k for k, _ in spec["order"]]
    return kinds == ["in", "in", "in", "in", "params", "out"] and spec["outs"][0]["width"] == N


def cl_inputs(D, N):
    """(G, calls per group, n_in) for a width-N variant."""
    G = D["G"]
    x, y, nx, ny = D["x"], D["y"], D["nx"], D["ny"]
    if N == 1:
        return np.concatenate([np.broadcast_to(x, (G, T, 3)), y, np.broadcast_to(nx, (G, T, 3)), np.broadcast_to(ny, (G, T, 3))], axis=2)
    assert D["dataset"] == "R"
    c = T // N

    def lanes(a):  # (G,T,3) -> (G,c,3N) laid out [component][lane]
        return a.reshape(G, c, N, 3).transpose(0, 1, 3, 2).reshape(G, c, 3 * N)

    return np.concatenate([np.broadcast_to(x, (G, c, 3)), lanes(y), np.broadcast_to(nx, (G, c, 3)), lanes(ny)], axis=2)


def cl_decode(out, G, N, ncomp):
    """driver output rows (G*c, ncomp*N) laid out [comp][lane] -> (G, T, ncomp)"""
    c = T // N
    return out.reshape(G, c, ncomp, N).transpose(0, 1, 3, 2).reshape(G, T, ncomp)


# --------------------------------------------------------------------------------------------- Numba side
def numba_values(fn, D, mode, gradient=False):
    G = D["G"]
    dt = D["y"].dtype
    yc = np.ascontiguousarray(D["y"].transpose(0, 2, 1))  # (G,3,T)
    out = None
    if gradient:
        rdt = np.dtype(np.complex64 if dt == np.float32 else np.complex128)
        vals = np.empty((G, T, 4), dtype=np.complex128)
        for g in range(G):
            xt = np.ascontiguousarray(D["x"][g].T)  # (3,1)
            if g % 2 == 0:
                vals[g] = np.asarray(fn(xt, yc[g], D["p_nb"][g], np.dtype(dt), rdt)).reshape(T, 4)
            else:
                # the helper takes several targets per call (that is how the FMM near field uses it): the pair of interest is the
                # SECOND target of a two-target call, so that state carried over from one target to the next is observed too
                x2 = np.ascontiguousarray(np.hstack([np.ascontiguousarray(D["x"][g - 1].T), xt]))  # (3,2)
                vals[g] = np.asarray(fn(x2, yc[g], D["p_nb"][g], np.dtype(dt), rdt)).reshape(2, T, 4)[1]
        return vals
    if mode == "regular":
        nyc = np.ascontiguousarray(D["ny"].transpose(0, 2, 1))
        for g in range(G):
            v = np.asarray(fn(D["x"][g, 0], yc[g], D["nx"][g, 0], nyc[g], D["p_nb"][g]))
            if out is None:
                out = np.empty((G, T), dtype=np.complex128 if np.iscomplexobj(v) else np.float64)
            out[g] = v
    else:
        xc = np.ascontiguousarray(D["x"].transpose(0, 2, 1))
        for g in range(G):
            v = np.asarray(fn(xc[g], yc[g], D["nx"][g, 0], D["ny"][g, 0], D["p_nb"][g]))
            if out is None:
                out = np.empty((G, T), dtype=np.complex128 if np.iscomplexobj(v) else np.float64)
            out[g] = v
    return out


# --------------------------------------------------------------------------------------------- main
def main():
    ctx = Ctx("C20")
    ctx.level = "exploration"
    ctx.rule = ("differential + sanitizer: every function parsed from kernels.h and the shapeset headers is compiled as OpenCL C for the "
                "host (clang 14, ASan+UBSan) and called through a generated wrapper, in single and double precision; a case is one "
                "(function, precision, data set, wavenumber class) with its batch of point pairs; distinct by that tuple")
    ctx.assumptions = [
        "OpenCL builtins (sqrt, rsqrt, cos, sin, exp, dot, length, distance) are the libm functions of the type (vlib/cl/shims.cpp), "
        "i.e. a conforming full-precision OpenCL implementation, not native_* approximations",
        "host code generation for x86-64 (-mavx2, -O0, no FMA contraction) stands for an OpenCL device; address spaces are no-ops",
        "tolerance %g*eps*(1+|k|r)*scale, derived in the module docstring; shapesets %g*eps" % (C_TOL, SHAPE_TOL),
        "far-field kernels: both backends read Re k only; the reference does the same (Im k in the far field is C08's subject)",
        "kernel_parameters have the length the assemblers pass: Laplace [0.0] (OpenCL) / [] (Numba), modified Helmholtz [omega], Helmholtz [Re k, Im k]",
    ]
    boot.boot(stubs=("fake_pyopencl",))
    from vlib.cl.build import BuildError, Harness, classify_report

    H = Harness(boot.REPO)

    def done():
        H.cleanup()  # ctx.finish() leaves through os._exit: atexit handlers do not run
        ctx.finish()

    include = H.include
    with ctx.guard("generate", "harness:generate"):
        H.generate()
    if H.funcs is None:
        ctx.inconclusive.append("headers could not be parsed")
        done()
    funcs = H.funcs
    pool = ThreadPoolExecutor(max_workers=1)
    build_future = pool.submit(H.build)
    ctx.lap("parse+generate")

    # ------------------------------------------------------------------ classify what was parsed
    by_name = {f["name"]: f for f in funcs}
    families = {}
    shapesets = []
    helpers = []
    unknown = []
    for f in funcs:
        m = re.match(r"(.+)_(novec|vec4|vec8|vec16)$", f["name"])
        if m and len(f["args"]) == 6:
            families.setdefault(m.group(1), {})[m.group(2)] = f
        elif f["name"].endswith("_evaluate"):
            shapesets.append(f)
        elif re.match(r"diff_vec(4|8|16)?$", f["name"]):
            helpers.append(f)
        else:
            unknown.append(f)
    ctx.note("parsed_functions", {"total": len(funcs), "kernel_families": {k: sorted(v) for k, v in families.items()},
                                  "shapesets": [f["name"] for f in shapesets], "helpers": [f["name"] for f in helpers],
                                  "without_oracle": [f["name"] for f in unknown]})
    not_called = {}  # name -> reason
    for f in funcs:
        if f["unwrapped"]:
            not_called[f["name"]] = "cannot be wrapped: " + f["unwrapped"]
    for f in unknown:
        not_called.setdefault(f["name"], "no oracle known for this function")

    table = {}
    with ctx.guard("tables", "tables"):
        table = read_tables(ctx, families)
    cl_to_kt = {}
    for kt, ent in table.items():
        if "cl" in ent:
            cl_to_kt.setdefault(ent["cl"], []).append(kt)
    ctx.note("kernel_tables", {kt: {"opencl": e.get("cl"), "numba_regular": getattr(e["regular"], "__name__", None),
                                    "numba_singular": getattr(e["singular"], "__name__", None)} for kt, e in table.items() if "cl" in e})
    for kt, ent in sorted(table.items()):
        if "cl" not in ent:
            continue
        if ent["cl"] not in families:
            ctx.violation("table:opencl_function_missing:" + kt, "select_cl_kernel maps %s to %s but kernels.h defines no %s_* function" % (kt, ent["cl"], ent["cl"]), "tables")
        elif sorted(families[ent["cl"]]) != sorted(VARIANTS):
            ctx.violation("table:opencl_variant_missing:" + kt, "%s has variants %s, the assemblers need %s" % (ent["cl"], sorted(families[ent["cl"]]), sorted(VARIANTS)), "tables")
        if ent["regular"] is None:
            ctx.violation("table:no_numba_counterpart:" + kt, "select_cl_kernel knows %s but select_numba_kernels (regular) does not" % kt, "tables")

    # work list: (family, kernel_type, kind, numba regular, numba singular, gradient?)
    work = []
    for fam in sorted(families):
        if fam in cl_to_kt:
            for kt in cl_to_kt[fam]:
                kind = classify(kt)
                ent = table[kt]
                if kind is None or ent["regular"] is None:
                    for v, f in families[fam].items():
                        not_called.setdefault(f["name"], "kernel type %s: no reference formula / no Numba counterpart" % kt)
                    continue
                work.append({"family": fam, "kt": kt, "kind": kind, "regular": ent["regular"], "singular": ent["singular"], "gradient": False})
        elif fam in GRADIENT_COUNTERPARTS:
            modname, fname, pde = GRADIENT_COUNTERPARTS[fam]
            mod = __import__(modname, fromlist=[fname])
            work.append({"family": fam, "kt": fam, "kind": {"pde": pde, "far": False, "layer": "gradient"},
                         "regular": getattr(mod, fname), "singular": None, "gradient": True})
        else:
            for v, f in families[fam].items():
                not_called.setdefault(f["name"], "family %s is neither in select_cl_kernel nor a known gradient kernel: no oracle" % fam)

    rounds = 1 if ctx.quick else 8  # independent rounds keep the memory bounded
    G_R = 800 if ctx.quick else 3000  # groups per round: one test point x 16 trial points (regular)
    G_S = 300 if ctx.quick else 1000  # groups per round: 16 point pairs with one normal each (singular)
    precisions = ("single", "double")
    dts = {"single": np.float32, "double": np.float64}

    called = {p: set() for p in precisions}
    san_reports = {}
    stats = {}
    common_dev = {}
    lanes_seen = {}
    per_variant = {}
    numba_missing = 0
    build_s = None
    for rnd in range(rounds):
        # ------------------------------------------------------------------ inputs, Numba values, references (while clang runs)
        items = []  # one per (work, precision, dataset)
        for w in work:
            for prec in precisions:
                for dataset in ("R", "S"):
                    if dataset == "S" and (w["singular"] is None):
                        continue
                    G = G_R if dataset == "R" else G_S
                    rng = ctx.rng("data", w["kt"], prec, dataset, rnd)
                    D = make_data(rng, w["kind"], dataset, G, dts[prec])
                    items.append({"w": w, "prec": prec, "dataset": dataset, "D": D})
        ctx.lap("inputs")
        for it in items:
            w, D = it["w"], it["D"]
            cid = "numba:%s:%s:%s" % (w["kt"], it["prec"], it["dataset"])
            it["nb"] = None
            with ctx.guard(cid, "numba_kernel:%s:%s" % (w["kt"], it["prec"])):
                fn = w["regular"] if it["dataset"] == "R" else w["singular"]
                v = numba_values(fn, D, "regular" if it["dataset"] == "R" else "singular", gradient=w["gradient"])
                it["nb_name"] = getattr(fn, "__name__", str(fn))
                if w["gradient"]:
                    it["nb_extra_value"] = v[:, :, 0]
                    v = v[:, :, 1:4]
                it["nb"] = v
            it["ref"], it["scale"], it["cond"] = reference(w["kind"], D)
        ctx.lap("numba+reference")

        # ------------------------------------------------------------------ build (first round: wait for clang)
        if build_s is None:
            try:
                build_s = build_future.result()
            except BuildError as e:
                ctx.note("build_failure", {"stage": e.stage, "cmd": e.cmd, "log": e.log[-3000:]})
                in_headers = re.search(r"%s[^\s:]*\.h:\d+:\d+: (fatal )?error:" % re.escape(include.rstrip("/") + "/"), e.log)
                if e.stage.startswith("opencl-c") and in_headers:
                    ctx.violation("sanitizer-build:opencl_c_compile_error",
                                  "the headers of the tree under test do not compile as OpenCL C 1.2 (%s):\n%s" % (e.stage, e.log[-1500:]), "build")
                else:
                    und = sorted(set(re.findall(r"undefined reference to `([^']+)'", e.log)))
                    ctx.inconclusive.append("harness build failed at '%s'%s" % (e.stage, (": builtins missing from shims.cpp: " + ", ".join(und[:12])) if und else ""))
                done()
            ctx.note("build", {"wall_s": round(build_s, 1), "dir": ".build/C20.<pid>", "include": include, "commands": H.commands[:3],
                               "wrappers": len(H.table), "translation_units": {str(k): len(v) for k, v in H.units.items()}})
            ctx.lap("build(wait)")

        # ------------------------------------------------------------------ batches per precision
        plan = {p: [] for p in precisions}  # entries: dict(spec, kind, payload, batches=[(fid, params, ins)])
        for it in items:
            w, D, prec = it["w"], it["D"], it["prec"]
            for variant, N in VARIANTS.items():
                f = families[w["family"]].get(variant)
                if f is None or f["unwrapped"]:
                    continue
                if N > 1 and it["dataset"] == "S":
                    continue
                spec = f["instances"][0]
                if not signature_ok(spec, N):
                    not_called.setdefault(f["name"], "unexpected signature (%s)" % ", ".join(a["text"] for a in f["args"]))
                    continue
                ins = cl_inputs(D, N)
                plan[prec].append({"type": "kernel", "spec": spec, "it": it, "N": N, "variant": variant,
                                   "batches": [(spec["fid"], D["p_cl"][g], ins[g]) for g in range(D["G"])]})
        # shapesets and helpers
        npts = 400 if ctx.quick else 4000
        for prec in precisions:
            dt = dts[prec]
            rng = ctx.rng("shapeset-points", prec, rnd)
            p = rng.uniform(0, 1, size=(npts, 2))
            flip = p.sum(axis=1) > 1
            p[flip] = 1 - p[flip]
            p = np.concatenate([np.array([[0, 0], [1, 0], [0, 1], [0.5, 0.5], [0.5, 0], [0, 0.5], [1 / 3, 1 / 3]]), p]).astype(dt)
            for f in shapesets:
                if f["unwrapped"]:
                    continue
                spec = f["instances"][0]
                if not (len(spec["ins"]) == 1 and spec["ins"][0]["width"] == 2 and spec["ins"][0]["ptr"] and not spec["has_params"]
                        and len(spec["outs"]) == 1 and spec["outs"][0]["width"] == 1):
                    not_called.setdefault(f["name"], "unexpected shapeset signature")
                    continue
                plan[prec].append({"type": "shapeset", "spec": spec, "points": p, "batches": [(spec["fid"], np.zeros(0, dt), p)]})
            for f in helpers:
                for spec in f["instances"]:
                    N = spec["outs"][0]["width"] if spec["outs"] else 0
                    okh = (len(spec["ins"]) == 2 and spec["ins"][0]["width"] == 3 and spec["ins"][0]["dims"] == [] and spec["ins"][1]["dims"] == [3]
                           and len(spec["outs"]) == 1 and spec["outs"][0]["dims"] == [3] and spec["ins"][1]["width"] == N and not spec["has_params"])
                    if not okh:
                        not_called.setdefault(f["name"], "unexpected helper signature")
                        continue
                    rng = ctx.rng("diff_vec", prec, spec["symbol"], rnd)
                    a = (rng.normal(size=(npts, spec["n_in"])) * 10 ** rng.uniform(-3, 3, size=(npts, 1))).astype(dt)
                    plan[prec].append({"type": "diff_vec", "spec": spec, "N": N, "ins": a, "batches": [(spec["fid"], np.zeros(0, dt), a)]})
        ctx.lap("batches")

        # ------------------------------------------------------------------ run under the sanitizers
        for prec in precisions:
            entries = plan[prec]
            batches = [b for e in entries for b in e["batches"]]
            rc, outs, err = H.run(prec, batches)
            ctx.count("driver_runs")
            if rc == 0:
                pos = 0
                for e in entries:
                    e["out"] = np.concatenate(outs[pos:pos + len(e["batches"])], axis=0)
                    pos += len(e["batches"])
                    called[prec].add(e["spec"]["symbol"])
                m = re.search(r"C20-DONE (\d+)", err)
                ctx.count("opencl_function_calls", int(m.group(1)) if m else 0)
                continue
            # a report: attribute it function by function
            kind, excerpt = classify_report(rc, err)
            attributed = 0
            san_reports.setdefault(prec, []).append({"whole_run": kind, "round": rnd})
            for e in entries:
                sp = e["spec"]
                rc1, outs1, err1 = H.run(prec, e["batches"], tag="one")
                ctx.count("driver_runs")
                called[prec].add(sp["symbol"])
                if rc1 == 0:
                    e["out"] = np.concatenate(outs1, axis=0)
                    continue
                kind1, excerpt1 = classify_report(rc1, err1)
                attributed += 1
                e["out"] = None
                if {"function": sp["symbol"], "kind": kind1} in san_reports[prec]:
                    continue  # same function, other data set
                san_reports[prec].append({"function": sp["symbol"], "kind": kind1})
                ctx.violation("sanitizer:%s:%s:%s" % (kind1, sp["symbol"][2:], prec),
                              "%s (%s:%d), %s precision, compiled as OpenCL C with ASan+UBSan: driver exit %s\n%s" % (sp["name"], sp["file"], sp["line"], prec, rc1, excerpt1),
                              "%s:%s" % (sp["symbol"], prec), data={"stderr": err1[-3000:]})
            if not attributed:
                ctx.violation("sanitizer:%s:unattributed:%s" % (kind, prec), "whole run failed (exit %s) but every function alone passes\n%s" % (rc, excerpt), "run:" + prec)
        ctx.note("sanitizer_reports", san_reports)
        ctx.lap("driver")

        # ------------------------------------------------------------------ compare

        def units(a, b, tol1):
            dlt = np.abs(a - b)
            bad = ~np.isfinite(dlt)
            dlt = np.where(bad, np.inf, dlt)
            return dlt / tol1

        for prec in precisions:
            eps = float(np.finfo(dts[prec]).eps)
            for e in plan[prec]:
                sp = e["spec"]
                name = sp["name"]
                cid = "%s:%s" % (sp["symbol"], prec)
                if e.get("out") is None or not ctx.want(cid):
                    continue
                if e["type"] == "kernel":
                    it, N = e["it"], e["N"]
                    w, D = it["w"], it["D"]
                    G = D["G"]
                    ncomp = sp["n_out"] // N
                    is_complex = w["kind"]["pde"] == "helmholtz"
                    want_comp = 6 if w["gradient"] else (2 if is_complex else 1)
                    if ncomp != want_comp:
                        ctx.violation("arity:%s:%s" % (name, prec), "%s (%s:%d) writes %d result components per lane; the Numba counterpart %s returns %s values (%d)"
                                      % (name, sp["file"], sp["line"], ncomp, it.get("nb_name"), "complex" if is_complex else "real", want_comp), cid)
                        continue
                    o = cl_decode(e["out"].astype(np.float64), G, N, ncomp)
                    if w["gradient"]:
                        cl = o.reshape(G, T, 3, 2)[..., 0] + 1j * o.reshape(G, T, 3, 2)[..., 1]
                        scale = it["scale"][..., None]
                        cond = it["cond"][..., None]
                    elif is_complex:
                        cl = o[..., 0] + 1j * o[..., 1]
                        scale, cond = it["scale"], it["cond"]
                    else:
                        cl = o[..., 0]
                        scale, cond = it["scale"], it["cond"]
                    tol1 = (eps * cond * scale).astype(np.float64)  # one unit
                    tol1 = np.broadcast_to(np.maximum(tol1, np.finfo(np.float64).tiny), cl.shape)
                    ref = it["ref"].astype(np.complex128 if np.iscomplexobj(it["ref"]) else np.float64)
                    u_ref = units(cl, ref, tol1)
                    st = stats.setdefault("%s:%s" % (name, prec), {"points": 0})
                    st["points"] += int(cl.size)
                    st["vs_reference"] = max(st.get("vs_reference", 0.0), float(u_ref.max()))
                    lanes_seen.setdefault(N, set()).update(range(N))
                    mode = "regular" if it["dataset"] == "R" else "singular"
                    for c in range(5):
                        sel = D["kclass"] == c
                        ctx.case("%s:%s:%s:k%d" % (sp["symbol"], prec, it["dataset"], c),
                                 {"function": name, "precision": prec, "dataset": mode, "kclass": c, "round": rnd, "groups": int(sel.sum()), "pairs": int(sel.sum()) * T,
                                  "rmin": float(np.min(np.linalg.norm(D["y"] - D["x"], axis=-1))), "rmax": float(np.max(np.linalg.norm(D["y"] - D["x"], axis=-1)))})
                    ctx.count("point_pairs_compared", int(G * T))
                    nb = it["nb"]
                    if nb is None:
                        continue
                    if np.iscomplexobj(nb) != np.iscomplexobj(cl):
                        ctx.violation("arity:%s:%s" % (name, prec), "%s returns %s, %s returns %s" % (name, cl.dtype, it["nb_name"], nb.dtype), cid)
                        continue
                    u_nb = units(cl, nb, tol1)
                    u_nbref = units(nb, ref, tol1)
                    st["vs_numba_" + mode] = max(st.get("vs_numba_" + mode, 0.0), float(u_nb.max()))
                    st["numba_vs_reference"] = max(st.get("numba_vs_reference", 0.0), float(u_nbref.max()))
                    ctx.note_max("max_units_opencl_vs_numba_" + prec, u_nb.max())
                    ctx.note_max("max_units_opencl_vs_reference_" + prec, u_ref.max())
                    ctx.note_max("max_units_numba_vs_reference_" + prec, u_nbref.max())
                    if not (u_nb.max() <= C_TOL):
                        idx = np.unravel_index(int(np.argmax(u_nb)), u_nb.shape)
                        g, j = idx[0], idx[1]
                        nbad = int((u_nb > C_TOL).sum())
                        cl_dev, nb_dev = float(u_ref[idx]), float(u_nbref[idx])
                        if cl_dev > C_TOL and nb_dev <= C_TOL:
                            culprit = "the OpenCL function deviates from the reference formula (%.3g units), the Numba function does not (%.3g)" % (cl_dev, nb_dev)
                        elif nb_dev > C_TOL and cl_dev <= C_TOL:
                            culprit = "the Numba function deviates from the reference formula (%.3g units), the OpenCL function does not (%.3g)" % (nb_dev, cl_dev)
                        else:
                            culprit = "both deviate from the reference formula (OpenCL %.3g, Numba %.3g units)" % (cl_dev, nb_dev)
                        lane = int(j % N)
                        data = {"function": name, "file": sp["file"], "line": sp["line"], "numba": it["nb_name"], "precision": prec, "mode": mode,
                                "test_point": D["x"][g, 0 if mode == "regular" else j], "trial_point": D["y"][g, j], "test_normal": D["nx"][g, 0],
                                "trial_normal": D["ny"][g, j if mode == "regular" else 0], "kernel_parameters_opencl": D["p_cl"][g], "lane": lane,
                                "opencl": cl[idx], "numba_value": nb[idx], "reference": ref[idx], "units": float(u_nb[idx]), "tolerance_units": C_TOL,
                                "one_unit": float(tol1[idx]), "bad_points": nbad, "points": int(u_nb.size)}
                        ctx.violation("opencl_vs_numba:%s:%s:%s" % (name, prec, mode),
                                      "%s (%s:%d) and %s disagree in %s precision at %d of %d points; worst: lane %d, |diff| = %.3g units of eps(1+|k|r)*scale (tolerance %g): "
                                      "OpenCL %r, Numba %r, reference %r; %s" % (name, sp["file"], sp["line"], it["nb_name"], prec, nbad, u_nb.size, lane, float(u_nb[idx]), C_TOL,
                                                                               complex(cl[idx]) if is_complex or w["gradient"] else float(cl[idx]),
                                                                               complex(nb[idx]) if is_complex or w["gradient"] else float(nb[idx]),
                                                                               complex(ref[idx]) if is_complex or w["gradient"] else float(ref[idx]), culprit),
                                      cid, data=data)
                    elif u_ref.max() > C_TOL:
                        common_dev["%s:%s" % (name, prec)] = float(u_ref.max())
                elif e["type"] == "shapeset":
                    ident = name[: -len("_evaluate")]
                    p = e["points"]
                    from bempp_cl.api.space import shapesets as ss

                    ctx.case(cid, {"function": name, "precision": prec, "round": rnd, "points": int(p.shape[0])})
                    with ctx.guard(cid, "shapeset:%s:%s" % (name, prec)):
                        if ident not in ss._SHAPESETS:
                            ctx.violation("shapeset:no_numba_counterpart:" + name, "%s has no entry '%s' in bempp_cl.api.space.shapesets" % (name, ident), cid)
                            continue
                        S = ss.Shapeset(ident)
                        nbv = np.asarray(S.evaluate(np.ascontiguousarray(p.T)))  # (dim, nshape, n)
                        dim, nsh = nbv.shape[0], nbv.shape[1]
                        if (dim, nsh) != (S.dimension, S.number_of_shape_functions) or sp["n_out"] != dim * nsh:
                            ctx.violation("arity:%s:%s" % (name, prec), "%s writes %d values, the Numba shapeset has %d functions x %d components" % (name, sp["n_out"], nsh, dim), cid)
                            continue
                        cl = e["out"].reshape(-1, nsh, dim).transpose(2, 1, 0).astype(np.float64)
                        x_, y_ = p[:, 0].astype(np.float64), p[:, 1].astype(np.float64)
                        refs = {"p0_discontinuous": [[np.ones_like(x_)]], "p1_discontinuous": [[1 - x_ - y_, x_, y_]],
                                "rwg0": [[x_, x_ - 1, x_], [y_ - 1, y_, y_]], "snc0": [[x_, x_ - 1, x_], [y_ - 1, y_, y_]]}
                        u = np.abs(cl - nbv.astype(np.float64)) / eps
                        u = np.where(np.isfinite(u), u, np.inf)
                        st = stats.setdefault("%s:%s" % (name, prec), {"points": int(p.shape[0])})
                        st["vs_numba"] = float(u.max())
                        ctx.note_max("max_units_shapeset_" + prec, u.max())
                        if ident in refs:
                            st["vs_reference"] = float(np.max(np.abs(cl - np.array(refs[ident])) / eps))
                        if not (u.max() <= SHAPE_TOL):
                            idx = np.unravel_index(int(np.argmax(u)), u.shape)
                            ctx.violation("shapeset:%s:%s" % (name, prec),
                                          "%s (%s:%d) and the Numba shapeset '%s' differ at local point %s: component %d of function %d is %r (OpenCL) vs %r (Numba)%s"
                                          % (name, sp["file"], sp["line"], ident, p[idx[2]].tolist(), idx[0], idx[1], float(cl[idx]), float(nbv[idx]),
                                             (", reference %r" % float(np.array(refs[ident])[idx])) if ident in refs else ""), cid,
                                          data={"point": p[idx[2]], "opencl": cl[:, :, idx[2]], "numba": nbv[:, :, idx[2]]})
                elif e["type"] == "diff_vec":
                    N = e["N"]
                    a = e["ins"]
                    v1 = a[:, :3]
                    v2 = a[:, 3:].reshape(-1, 3, N)
                    want = v1[:, :, None] - v2  # same type, one rounding
                    got = e["out"].reshape(-1, 3, N)
                    ctx.case(cid, {"function": sp["symbol"], "precision": prec, "round": rnd, "calls": int(a.shape[0])})
                    lanes_seen.setdefault(N, set()).update(range(N))
                    st = stats.setdefault("%s:%s" % (sp["symbol"][2:], prec), {"points": int(got.size)})
                    nbad = int((got != want).sum())
                    st["mismatches"] = nbad
                    if nbad:
                        idx = np.argwhere(got != want)[0]
                        ctx.violation("helper:%s:%s" % (sp["symbol"][2:], prec), "%s (%s:%d): result[%d] lane %d is %r, expected vec1 - vec2 = %r"
                                      % (name, sp["file"], sp["line"], idx[1], idx[2], float(got[tuple(idx)]), float(want[tuple(idx)])), cid)
        for prec in precisions:
            for e in plan[prec]:
                if e["type"] == "kernel" and e.get("out") is not None:
                    per_variant.setdefault("%s:%s" % (e["variant"], prec), set()).add(e["spec"]["name"])
        numba_missing += sum(it["nb"] is None for it in items)
        ctx.lap("compare")
        del items, plan
        if san_reports:
            ctx.note("stopped_after_round", rnd)  # a sanitizer report repeats in every round
            break

    # ------------------------------------------------------------------ evidence and obligations
    ctx.note("per_function", stats)
    ctx.note("common_deviation_from_reference(both backends agree; not a C20 matter)", common_dev)
    ctx.note("kernel_functions_compared", {k: len(v) for k, v in sorted(per_variant.items())})
    ctx.note("lanes_exercised", {str(k): len(v) for k, v in sorted(lanes_seen.items())})
    ctx.note("tolerance", {"C": C_TOL, "single": C_TOL * float(np.finfo(np.float32).eps), "double": C_TOL * float(np.finfo(np.float64).eps),
                           "shapeset_units": SHAPE_TOL})
    ctx.note("groups", {"rounds": rounds, "regular": G_R, "singular": G_S, "trial_points_per_group": T})
    parsed = sorted(by_name)
    for prec in precisions:
        got = set()
        for s in H.table:
            if s["symbol"] in called[prec]:
                got.add(s["name"])
        missing = [n for n in parsed if n not in got or n in not_called]
        ctx.obligation("every parsed function called (%s): parsed == called" % prec, not missing and len(got) == len(parsed),
                       {"parsed": len(parsed), "called": len(got), "wrapper_instances_called": len(called[prec]),
                        "not_called": {n: not_called.get(n, "no batch was generated") for n in missing}})
    ctx.obligation("every OpenCL kernel family has a Numba counterpart and a reference", all(fam in {w["family"] for w in work} for fam in families),
                   {"families": len(families), "with_oracle": len({w["family"] for w in work})})
    ctx.obligation("all lanes of all vector widths exercised", all(len(lanes_seen.get(n, ())) == n for n in (1, 4, 8, 16)),
                   {str(k): len(v) for k, v in lanes_seen.items()})
    ctx.obligation("Numba kernels evaluated for every item", numba_missing == 0, numba_missing)
    done()


if __name__ == "__main__":
    main()
