"""C12 — quadrature rules have their stated degree of exactness.

Exhaustive sweep over orders, monomials and remaps; exact rational reference values.
No bempp JIT is needed (the integration modules are pure NumPy)."""

import itertools
import math
from fractions import Fraction

import numpy as np

from vlib import boot
from vlib.verdict import Ctx

TOL = 5e-13


def main():
    ctx = Ctx("C12")
    ctx.level = "exploration"
    ctx.rule = ("exhaustive sweep: triangle orders 1..20 x all monomials of degree<=order; Gauss 1..30 x all degrees<=2n-1; "
                "Duffy orders x 3 adjacency types x (6x6 edge / 3x3 vertex remaps) x monomial exponents of total degree<=2n-4; "
                "1/|x-y| convergence per remap on random physical triangle pairs. A case is distinct by (rule, order, exponents, remap).")
    ctx.assumptions = ["reference values: exact rational monomial integrals; analytic inner potential + graded Gauss for 1/|x-y|",
                       "tolerance 5e-13 absolute (tables carry 15-16 digits)"]
    boot.boot()
    from bempp_cl.api.integration import triangle_gauss, gauss, duffy_galerkin, duffy_collocation
    from vlib import refmodel as R

    # ---------------------------------------------------------------- triangle rules
    worst = 0.0
    for order in range(1, 21):
        cid = "tri:%d" % order
        if not ctx.want(cid):
            continue
        with ctx.guard(cid, "triangle_rule"):
            pts, w = triangle_gauss.rule(order)
            npts = triangle_gauss.get_number_of_quad_points(order)
            if pts.shape != (2, npts) or w.shape != (npts,):
                ctx.violation("triangle_rule:shape", "order %d: shapes %s %s vs advertised %d" % (order, pts.shape, w.shape, npts), cid)
            if abs(w.sum() - 0.5) > TOL:
                ctx.violation("triangle_rule:weight_sum", "order %d: sum of weights %r != 1/2" % (order, w.sum()), cid)
            inside = (pts[0] >= -1e-14) & (pts[1] >= -1e-14) & (pts[0] + pts[1] <= 1 + 1e-14)
            # Not part of the property (some symmetric rules legitimately have nodes slightly outside the
            # triangle or negative weights): recorded only.
            if not inside.all():
                ctx.notes.setdefault("triangle_orders_with_points_outside", []).append(order)
            if not (w > 0).all():
                ctx.notes.setdefault("triangle_orders_with_negative_weights", []).append(order)
            for a in range(order + 1):
                for b in range(order + 1 - a):
                    val = float(np.sum(w * pts[0] ** a * pts[1] ** b))
                    ex = float(R.monomial_triangle_exact(a, b))
                    err = abs(val - ex)
                    worst = max(worst, err)
                    ctx.case("tri:%d:%d,%d" % (order, a, b), {"rule": "triangle", "order": order, "mono": [a, b]})
                    if err > TOL:
                        ctx.violation("triangle_rule:exactness", "order %d monomial x^%d y^%d: %r vs %r (err %.2e)" % (order, a, b, val, ex, err), cid)
    ctx.note("triangle_worst_abs_err", worst)
    for bad in (0, -1, 21, 22, 100):
        cid = "tri:reject:%d" % bad
        if not ctx.want(cid):
            continue
        ctx.case(cid, {"rule": "triangle", "reject": bad})
        try:
            triangle_gauss.rule(bad)
            ctx.violation("triangle_rule:out_of_range_accepted", "triangle_gauss.rule(%d) returned a rule" % bad, cid)
        except (ValueError, IndexError, KeyError):
            pass

    # ---------------------------------------------------------------- Gauss rules
    worst = 0.0
    for n in range(1, 31):
        cid = "gauss:%d" % n
        if not ctx.want(cid):
            continue
        with ctx.guard(cid, "gauss_rule"):
            x, w = gauss.rule(n)
            if len(x) != n or len(w) != n:
                ctx.violation("gauss_rule:shape", "n=%d: %d points %d weights" % (n, len(x), len(w)), cid)
            if not ((x > 0) & (x < 1)).all():
                ctx.violation("gauss_rule:points_outside", "n=%d: nodes outside (0,1)" % n, cid)
            if not (w > 0).all():
                ctx.violation("gauss_rule:nonpositive_weight", "n=%d" % n, cid)
            for d in range(2 * n):
                val = float(np.sum(w * x ** d))
                err = abs(val - 1.0 / (d + 1))
                worst = max(worst, err)
                ctx.case("gauss:%d:%d" % (n, d), {"rule": "gauss", "n": n, "deg": d})
                if err > TOL:
                    ctx.violation("gauss_rule:exactness", "n=%d degree %d: %r vs %r (err %.2e)" % (n, d, val, 1.0 / (d + 1), err), cid)
            # degree 2n must NOT be exact (the rule is Gauss, not something else): informational sharpness
            val = float(np.sum(w * x ** (2 * n)))
            ctx.count("gauss_degree_2n_inexact", int(abs(val - 1.0 / (2 * n + 1)) > 1e-18))
    ctx.note("gauss_worst_abs_err", worst)
    for bad in (0, -1, 31, 32, 100):
        cid = "gauss:reject:%d" % bad
        if not ctx.want(cid):
            continue
        ctx.case(cid, {"rule": "gauss", "reject": bad})
        try:
            gauss.rule(bad)
            ctx.violation("gauss_rule:out_of_range_accepted", "gauss.rule(%d) returned a rule" % bad, cid)
        except (ValueError, IndexError, KeyError):
            pass

    # ---------------------------------------------------------------- Duffy rules
    max_order = 6 if ctx.quick else 10
    edge_maps = [(0, 1), (1, 0), (1, 2), (2, 1), (0, 2), (2, 0)]
    adj_n = {"coincident": 6, "edge_adjacent": 5, "vertex_adjacent": 2}
    worst = 0.0
    for n in range(2, max_order + 1):
        for adj in ("coincident", "edge_adjacent", "vertex_adjacent"):
            cid = "duffy:%s:%d" % (adj, n)
            if not ctx.want(cid):
                continue
            with ctx.guard(cid, "duffy_rule"):
                tp, sp, w = duffy_galerkin.rule(n, adj)
                npts = duffy_galerkin.number_of_quadrature_points(n, adj)
                if npts != adj_n[adj] * n ** 4:
                    ctx.violation("duffy_rule:advertised_count", "%s n=%d advertises %d" % (adj, n, npts), cid)
                if tp.shape != (2, npts) or sp.shape != (2, npts) or w.shape != (npts,):
                    ctx.violation("duffy_rule:shape", "%s n=%d: %s %s %s vs %d" % (adj, n, tp.shape, sp.shape, w.shape, npts), cid)
                    continue
                for nm, p in (("test", tp), ("trial", sp)):
                    inside = (p[0] >= -1e-14) & (p[1] >= -1e-14) & (p[0] + p[1] <= 1 + 1e-14)
                    if not inside.all():
                        ctx.violation("duffy_rule:points_outside", "%s n=%d: %d %s points outside" % (adj, n, (~inside).sum(), nm), cid)
                if not (w > 0).all():
                    ctx.violation("duffy_rule:nonpositive_weight", "%s n=%d" % (adj, n), cid)
                deg = 2 * n - 4
                if adj == "coincident":
                    remaps = [(None, None)]
                elif adj == "edge_adjacent":
                    remaps = list(itertools.product(edge_maps, edge_maps))
                else:
                    remaps = list(itertools.product(range(3), range(3)))
                if ctx.quick and n > 4:
                    remaps = remaps[:: max(1, len(remaps) // 6)]
                # exponents (a,b,c,d) of x1^a x2^b y1^c y2^d with total degree <= deg
                exps = [e for e in itertools.product(range(deg + 1), repeat=4) if sum(e) <= deg]
                if len(exps) > 140:
                    # keep all of the top two degrees on a deterministic stride, plus low ones
                    top = [e for e in exps if sum(e) >= deg - 1]
                    low = [e for e in exps if sum(e) < deg - 1]
                    exps = low[:: max(1, len(low) // 40)] + top[:: max(1, len(top) // 100)]
                for rm_t, rm_s in remaps:
                    if adj == "coincident":
                        tpp, spp = tp, sp
                    elif adj == "edge_adjacent":
                        tpp = duffy_galerkin.remap_points_shared_edge(tp, *rm_t)
                        spp = duffy_galerkin.remap_points_shared_edge(sp, *rm_s)
                    else:
                        tpp = duffy_galerkin.remap_points_shared_vertex(tp, rm_t)
                        spp = duffy_galerkin.remap_points_shared_vertex(sp, rm_s)
                    for p in (tpp, spp):
                        inside = (p[0] >= -1e-14) & (p[1] >= -1e-14) & (p[0] + p[1] <= 1 + 1e-14)
                        if not inside.all():
                            ctx.violation("duffy_rule:remap_points_outside", "%s n=%d remap %s/%s" % (adj, n, rm_t, rm_s), cid)
                    powt = [tpp[0] ** k for k in range(deg + 1)], [tpp[1] ** k for k in range(deg + 1)]
                    pows = [spp[0] ** k for k in range(deg + 1)], [spp[1] ** k for k in range(deg + 1)]
                    for (a, b, c, d) in exps:
                        val = float(np.sum(w * powt[0][a] * powt[1][b] * pows[0][c] * pows[1][d]))
                        ex = float(R.monomial_triangle_exact(a, b) * R.monomial_triangle_exact(c, d))
                        err = abs(val - ex)
                        worst = max(worst, err)
                        ctx.case("%s:%s:%s:%s" % (cid, rm_t, rm_s, (a, b, c, d)),
                                 {"rule": adj, "n": n, "remap": [rm_t, rm_s], "exp": [a, b, c, d]})
                        if err > TOL:
                            ctx.violation("duffy_rule:exactness:" + adj,
                                          "%s n=%d remap %s/%s exps %s: %r vs %r (err %.2e)" % (adj, n, rm_t, rm_s, (a, b, c, d), val, ex, err), cid)
    ctx.note("duffy_worst_abs_err", worst)

    # ---------------------------------------------------------------- 1/|x-y| convergence, every remap
    rng = ctx.rng("invdist")
    orders = [2, 4, 6, 8] if ctx.quick else [2, 3, 4, 5, 6, 7, 8, 9, 10]
    nconf = 1 if ctx.quick else 3
    conv_worst = {}

    def rand_tri_pair(kind):
        """Two well-shaped generic triangles sharing columns 0,1 (edge) or column 0 (vertex), then a random
        similarity transform. Well-shaped on purpose: the convergence *rate* of any Duffy rule degrades with the
        aspect ratio, and the property speaks of geometric convergence, not of a rate for needles."""
        from vlib.meshes import random_rotation
        j = lambda: rng.uniform(-0.12, 0.12)  # noqa: E731
        A = np.zeros(3)
        B = np.array([1 + j(), 0, 0])
        C = np.array([0.5 + j(), 0.87 + j(), 0])
        P = np.column_stack([A, B, C])
        if kind == "edge":
            th = np.radians(rng.uniform(50, 140) if rng.integers(2) else rng.uniform(220, 310))
            y = -(0.87 + j())
            D = np.array([0.5 + j(), y * np.cos(th), y * np.sin(th)])
            Q = np.column_stack([A, B, D])
        else:
            while True:
                d = rng.normal(size=3)
                d /= np.linalg.norm(d)
                f = rng.normal(size=3)
                f /= np.linalg.norm(f)
                if not 45 < np.degrees(np.arccos(d @ f)) < 80:
                    continue
                ok = True
                for u in (B / np.linalg.norm(B), C / np.linalg.norm(C), (B + C) / np.linalg.norm(B + C)):
                    for v in (d, f, (d + f) / np.linalg.norm(d + f)):
                        if u @ v > 0.5:
                            ok = False
                if ok:
                    break
            Q = np.column_stack([A, d * (1 + j()), f * (1 + j())])
        Rm = random_rotation(rng)
        sc = 10 ** rng.uniform(-1, 1)
        t = rng.normal(size=3)
        return sc * (Rm @ P) + t[:, None], sc * (Rm @ Q) + t[:, None]

    # coincident
    for conf in range(nconf):
        cid = "invdist:coincident:%d" % conf
        if not ctx.want(cid):
            continue
        P, _ = rand_tri_pair("edge")
        ref = R.inv_dist_double_integral_coincident(P)
        area = R.affine_map(P)[2]
        errs = []
        for n in orders:
            tp, sp, w = duffy_galerkin.rule(n, "coincident")
            x = R.local_to_global(P, tp)
            y = R.local_to_global(P, sp)
            val = float(np.sum(w / np.linalg.norm(x - y, axis=0))) * (2 * area) ** 2
            errs.append(abs(val - ref) / ref)
        ctx.case(cid, {"kind": "coincident", "errs": errs})
        _decide_convergence(ctx, cid, "coincident", errs, conv_worst)
    # edge adjacent: every (test remap, trial remap)
    for conf in range(nconf):
        for rm_t, rm_s in itertools.product(edge_maps, edge_maps):
            cid = "invdist:edge:%d:%s:%s" % (conf, rm_t, rm_s)
            if not ctx.want(cid):
                continue
            Pg, Qg = rand_tri_pair("edge")  # shared vertices are columns 0,1 of both
            # Put the shared vertices at local positions rm_t in P and rm_s in Q.
            P = _place(Pg, rm_t)
            Q = _place(Qg, rm_s)
            ref = R.inv_dist_double_integral(P, Q, ("edge", rm_t[0], rm_t[1]))
            ref2 = R.inv_dist_double_integral(Q, P, ("edge", rm_s[0], rm_s[1]))
            if abs(ref - ref2) > 1e-7 * abs(ref):
                ctx.count("reference_self_disagreement")
                continue
            aP, aQ = R.affine_map(P)[2], R.affine_map(Q)[2]
            errs = []
            for n in orders:
                tp, sp, w = duffy_galerkin.rule(n, "edge_adjacent")
                x = R.local_to_global(P, duffy_galerkin.remap_points_shared_edge(tp, *rm_t))
                y = R.local_to_global(Q, duffy_galerkin.remap_points_shared_edge(sp, *rm_s))
                val = float(np.sum(w / np.linalg.norm(x - y, axis=0))) * 4 * aP * aQ
                errs.append(abs(val - ref) / ref)
            ctx.case(cid, {"kind": "edge", "remap": [rm_t, rm_s], "errs": errs})
            _decide_convergence(ctx, cid, "edge_adjacent", errs, conv_worst)
    for conf in range(nconf):
        for rm_t, rm_s in itertools.product(range(3), range(3)):
            cid = "invdist:vertex:%d:%s:%s" % (conf, rm_t, rm_s)
            if not ctx.want(cid):
                continue
            Pg, Qg = rand_tri_pair("vertex")
            P = _place_vertex(Pg, rm_t)
            Q = _place_vertex(Qg, rm_s)
            ref = R.inv_dist_double_integral(P, Q, ("vertex", rm_t))
            ref2 = R.inv_dist_double_integral(Q, P, ("vertex", rm_s))
            if abs(ref - ref2) > 1e-7 * abs(ref):
                ctx.count("reference_self_disagreement")
                continue
            aP, aQ = R.affine_map(P)[2], R.affine_map(Q)[2]
            errs = []
            for n in orders:
                tp, sp, w = duffy_galerkin.rule(n, "vertex_adjacent")
                x = R.local_to_global(P, duffy_galerkin.remap_points_shared_vertex(tp, rm_t))
                y = R.local_to_global(Q, duffy_galerkin.remap_points_shared_vertex(sp, rm_s))
                val = float(np.sum(w / np.linalg.norm(x - y, axis=0))) * 4 * aP * aQ
                errs.append(abs(val - ref) / ref)
            ctx.case(cid, {"kind": "vertex", "remap": [rm_t, rm_s], "errs": errs})
            _decide_convergence(ctx, cid, "vertex_adjacent", errs, conv_worst)
    ctx.note("invdist_worst_final_rel_err", conv_worst)
    ctx.obligation("reference integrator self-consistent", ctx.counters.get("reference_self_disagreement", 0) == 0,
                   ctx.counters.get("reference_self_disagreement", 0))

    # ---------------------------------------------------------------- collocation Duffy rule (anchor file)
    for n in range(1, (9 if ctx.quick else 16)):
        cid = "colloc:%d" % n
        if not ctx.want(cid):
            continue
        with ctx.guard(cid, "duffy_collocation"):
            p, w = duffy_collocation.duffy_rule_on_reference_triangle(n)
            # triangle (0,0),(1,0),(1,1): ∫ x^a y^b = 1/((b+1)(a+b+2)); exact for a+b+1 <= 2n-1
            for a in range(2 * n - 1):
                for b in range(2 * n - 1 - a):
                    val = float(np.sum(w * p[0] ** a * p[1] ** b))
                    ex = 1.0 / ((b + 1) * (a + b + 2))
                    ctx.case("colloc:%d:%d,%d" % (n, a, b), {"rule": "colloc", "n": n, "mono": [a, b]})
                    if abs(val - ex) > TOL:
                        ctx.violation("duffy_collocation:exactness", "n=%d x^%d y^%d: %r vs %r" % (n, a, b, val, ex), cid)
            p3, w3 = duffy_collocation.singular_collocation_rule_piecewise_const(n)
            if abs(w3.sum() - 0.5) > TOL:
                ctx.violation("duffy_collocation:weight_sum", "n=%d: %r" % (n, w3.sum()), cid)
            for a in range(2 * n - 1):
                for b in range(2 * n - 1 - a):
                    val = float(np.sum(w3 * p3[0] ** a * p3[1] ** b))
                    ex = float(R.monomial_triangle_exact(a, b))
                    if abs(val - ex) > TOL:
                        ctx.violation("duffy_collocation:exactness3", "n=%d x^%d y^%d: %r vs %r" % (n, a, b, val, ex), cid)

    ctx.exhaustive = True
    ctx.obligation("all triangle orders 1..20 and Gauss orders 1..30 visited",
                   ctx.only_case is not None or (ctx.evaluations > 3000), ctx.evaluations)
    ctx.finish()


def _place(Tg, rm):
    """Tg has the shared vertices in columns 0,1 and the third in column 2. Return the triangle whose local
    vertex rm[0] is Tg[:,0], local rm[1] is Tg[:,1] and the remaining local index holds Tg[:,2]."""
    P = np.zeros((3, 3))
    P[:, rm[0]] = Tg[:, 0]
    P[:, rm[1]] = Tg[:, 1]
    P[:, 3 - rm[0] - rm[1]] = Tg[:, 2]
    return P


def _place_vertex(Tg, i):
    """Shared vertex (column 0 of Tg) goes to local index i, others keep cyclic order."""
    P = np.zeros((3, 3))
    P[:, i] = Tg[:, 0]
    P[:, (i + 1) % 3] = Tg[:, 1]
    P[:, (i + 2) % 3] = Tg[:, 2]
    return P


def _decide_convergence(ctx, cid, kind, errs, worst):
    """Geometric convergence to the reference: the last order (>= 8) is below 2e-6 and at least 100x
    better than order 2 (observed on the unchanged tree: <= 5e-8 and >= 3e5x). No monotonicity is
    demanded: the error changes sign between orders."""
    final = errs[-1]
    worst[kind] = max(worst.get(kind, 0.0), final)
    ok = (final < 2e-6 and final < errs[0] / 100) or final < 1e-11
    if not ok:
        ctx.violation("duffy_rule:inv_dist_convergence:" + kind, "relative errors by order %s" % (["%.2e" % e for e in errs],), cid,
                      data={"errs": errs})


if __name__ == "__main__":
    main()
