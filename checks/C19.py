"""C19 — export / import round trips.

Every case builds one grid (mesh family x domain-index class) and one grid function (space kind x real/complex
coefficients x data_type x transformation) and exports both to every format in FORMATS, binary and ASCII.

* grid -> .msh -> bempp_cl.api.import_grid: identical vertices, elements, domain indices (the file is also read with
  meshio so that a wrong file and a wrong importer get different mechanism keys);
* grid -> .vtu/.ply -> meshio.read (and import_grid): vertices and connectivity preserved;
* grid function -> file -> meshio.read: the point / cell data equal evaluate_on_vertices() /
  evaluate_on_element_centers() after the *documented* transformation, computed here (never by bempp's helper).

What a (format, ascii|binary, node|element, scalar|vector) combination can store at all, and how precisely, is
*calibrated* by writing reference data with meshio directly (no bempp code involved) and reading it back: exact if
meshio itself round-trips exactly, 4x the measured relative error for lossy ASCII writers, 1e-7 when the file stores
float32, "cannot store" (case skipped and counted, never a violation) when meshio itself loses the data.
"""

import contextlib
import io

import numpy as np

from vlib import boot
from vlib.verdict import Ctx

# The property names .msh/.vtu/.ply. (.vtk is not claimed: bempp-cl hands cell data to meshio as a (1, N) ndarray, which the
# legacy VTK writer stores as one N-component tuple - every .vtk it writes is unreadable; recorded in DESIGN.md, not decided here.)
FORMATS = [".msh", ".vtu", ".ply"]
KINDS = [("DP", 0), ("DP", 1), ("P", 1), ("RWG", 0), ("SNC", 0)]
CALLABLES = {
    "callable:affine": lambda a: 3.0 * a + 0.25,        # keeps dtype and shape
    "callable:i_conj": lambda a: 1j * np.conj(a),       # real input becomes complex output
    "callable:first_component": lambda a: a[:1] * 2.0,  # vector -> one row (still 2-dimensional)
}
TRANSFORMS = [None, "real", "imag", "abs", "log_abs", "abs_squared"] + sorted(CALLABLES)
DOM_CLASSES = ["all_zero", "single_valued", "contiguous", "noncontiguous", "noncontiguous_with_zero", "large"]
EPS = float(np.finfo(np.float64).eps)
INT32_MAX = 2 ** 31 - 1  # Gmsh tags are signed 32-bit integers: the largest index the format can hold


class MeshioGaveUp(Exception):
    """meshio.read calls sys.exit(1) when a reader raises ReadError; turned into an ordinary exception here."""


@contextlib.contextmanager
def quiet():
    """meshio prints warnings through rich; keep the verdict stream clean (never wrap ctx.violation in this)."""
    buf = io.StringIO()
    try:
        with contextlib.redirect_stdout(buf), contextlib.redirect_stderr(buf):
            yield
    except SystemExit as e:
        raise MeshioGaveUp("meshio called sys.exit(%s): %s" % (e.code, " ".join(buf.getvalue().split())[-200:]))


def mode_name(binary):
    return "binary" if binary else "ascii"


def tri_cells(r):
    return r.cells_dict.get("triangle")


def field(r, loc, name):
    """Point data / triangle cell data called `name` in a meshio mesh, or None."""
    if loc == "node":
        return r.point_data.get(name)
    blocks = r.cell_data.get(name)
    if blocks is None:
        return None
    for cb, d in zip(r.cells, blocks):
        if cb.type == "triangle":
            return d
    return None


def close(got, want, tol, slack=0.0):
    """|got - want| <= (tol + slack) * |want| + slack, element-wise; tol = slack = 0 means bitwise equal values."""
    got = np.asarray(got)
    if got.size != want.size or np.iscomplexobj(got):
        return False, "shape %s dtype %s, expected %s values" % (got.shape, got.dtype, want.shape)
    got = got.astype(np.float64).reshape(want.shape)
    err = np.abs(got - want)
    ok = bool(np.all(err <= (tol + slack) * np.abs(want) + slack))
    j = int(np.argmax(err)) if err.size else 0
    return ok, "max |diff| %.3e at flat index %d (got %r, expected %r; allowed relative %.1e)" % (
        err.max() if err.size else 0.0, j, got.flat[j] if err.size else None, want.flat[j] if err.size else None, tol + slack)


class Calibration:
    """What meshio itself can round-trip, measured without any bempp code."""

    def __init__(self, meshio, M):
        self.meshio = meshio
        self.cache = {}
        m = M.distort(M.screen(3), np.random.default_rng(20190))
        self.pts, self.tri = np.ascontiguousarray(m.V.T), np.ascontiguousarray(m.E.T.astype("int32"))

    def caps(self, ext, binary, loc=None, ncomp=0):
        key = (ext, bool(binary), loc, int(ncomp))
        if key not in self.cache:
            self.cache[key] = self._measure(*key)
        return self.cache[key]

    def _measure(self, ext, binary, loc, ncomp):
        rng = np.random.default_rng(7 + ncomp)
        n = len(self.pts) if loc == "node" else len(self.tri)
        data = rng.normal(size=(n, max(ncomp, 1))) * 10.0 ** rng.uniform(-2, 2, size=(n, max(ncomp, 1)))
        natural = data[:, 0] if ncomp == 1 else data
        pd = {"data": natural} if loc == "node" else None
        cd = {"data": [natural]} if loc == "element" else {}
        if ext == ".msh":
            cd["gmsh:physical"] = [np.arange(len(self.tri), dtype="int32")]
            cd["gmsh:geometrical"] = [np.ones(len(self.tri), dtype="int32")]
        fn = "calib%s" % ext
        try:
            with quiet():
                self.meshio.write_points_cells(fn, self.pts, [("triangle", self.tri)], point_data=pd, cell_data=cd,
                                               file_format="gmsh22" if ext == ".msh" else None, binary=binary)
                r = self.meshio.read(fn)
        except Exception as e:  # noqa: BLE001
            return {"ok": False, "why": "meshio cannot round-trip this itself: %s: %s" % (type(e).__name__, str(e)[:80])}
        t = tri_cells(r)
        if t is None or not np.array_equal(t, self.tri) or r.points.shape != self.pts.shape:
            return {"ok": False, "why": "meshio does not preserve points/connectivity in this format"}
        got, want = (r.points, self.pts) if loc is None else (field(r, loc, "data"), data)
        if got is None:
            return {"ok": False, "why": "meshio's writer drops this kind of data"}
        got = np.asarray(got)
        err = float(np.max(np.abs(got.astype(np.float64).reshape(want.shape) - want) / np.abs(want)))
        tol = 0.0 if err == 0 else (1e-7 if got.dtype == np.float32 else 4 * err)
        return {"ok": True, "tol": tol, "stored_as": str(got.dtype), "measured_rel_err": err}

    def table(self):
        return {"%s %s %s x%d" % (k[0], mode_name(k[1]), k[2] or "points", k[3]): v for k, v in sorted(self.cache.items(), key=str)}


def documented_transform(vals, t):
    """(ncomp, n) values -> what export() is documented to write, and the rounding slack of that formula."""
    if t is None:
        return vals, 0.0
    if t in CALLABLES:
        return CALLABLES[t](vals), 0.0
    if t == "real":
        return np.array(vals.real, dtype=np.float64), 0.0
    if t == "imag":
        return np.array(vals.imag, dtype=np.float64), 0.0
    # abs = Euclidean norm over the components (modulus for complex entries), one row
    norm2 = np.sum(vals.real ** 2 + vals.imag ** 2, axis=0, keepdims=True)
    res = {"abs": np.sqrt(norm2), "abs_squared": norm2, "log_abs": np.log(np.sqrt(norm2))}[t]
    return res, 16 * EPS


def draw_domains(rng, ne, cls, mesh_D):
    if cls == "all_zero":
        return np.zeros(ne, dtype=np.int64)
    if cls == "single_valued":
        return np.full(ne, int(rng.integers(1, 500)), dtype=np.int64)
    if cls == "contiguous":
        return np.asarray(mesh_D, dtype=np.int64) if len(set(mesh_D.tolist())) > 1 else rng.integers(0, 3, size=ne)
    if cls == "large":
        vals = np.array([INT32_MAX, INT32_MAX - int(rng.integers(1, 1000)), int(rng.integers(10 ** 6, 10 ** 9)), 2 ** 16 + 1])
    else:
        vals = rng.choice(np.arange(1, 5000), size=int(rng.integers(2, 6)), replace=False)
        if cls == "noncontiguous_with_zero":
            vals[0] = 0
    D = vals[rng.integers(0, len(vals), size=ne)]
    D[: min(ne, len(vals))] = vals[: min(ne, len(vals))]  # every value used when the mesh is large enough
    return D.astype(np.int64)


def mesh_pool(M, ctx):
    pool = M.closed_pool("quick") + M.open_pool("quick") + [M.multitrace_cubes(), M.cube(face_domains=True)]
    if not ctx.quick:
        pool = M.closed_pool("thorough") + M.open_pool("thorough") + [M.multitrace_cubes(), M.cube(face_domains=True),
                                                                       M.refine(M.cube(), 1), M.refine(M.screen(3), 1)]
    assert all(m.ne <= 200 for m in pool)
    return pool


def main():
    ctx = Ctx("C19")
    ctx.rule = ("case i = (mesh family [distorted, relabelled, rescaled], domain-index class, space kind, real/complex coefficients, data_type, "
                "transformation); the (kind, transformation, complex, data_type) tuples are enumerated (all 180 in the thorough tier), each case is "
                "exported to .msh/.vtu/.ply in binary and ASCII, as a grid and as a grid function. Distinct = distinct case description; "
                "non-trivial = at least 2 elements.")
    ctx.assumptions = ["meshio.read is a faithful reader of the files it can read (it is the independent reader of the oracle)",
                       "capability and precision of each (format, mode, data location, components) are those measured by a direct meshio write/read "
                       "of reference data (Calibration); a combination meshio cannot round-trip itself is skipped, not blamed on bempp-cl",
                       "abs/abs_squared/log_abs are compared to 16 ulp (the formula is documented, not its rounding); everything else exactly",
                       "domain indices up to 2^31-1 (Gmsh tags are signed 32-bit)"]
    boot.boot()
    import meshio
    import bempp_cl.api as api
    from vlib import meshes as M

    cal = Calibration(meshio, M)
    pool = mesh_pool(M, ctx)
    ncases = 40 if ctx.quick else 1500
    seen = {k: set() for k in ("mode", "grid_format", "function_format", "function_format_compared", "dom_class", "kind", "transformation", "dtype_class", "loc")}
    partial = ctx.only_case is not None or bool(ctx.args.only)

    for i in range(ncases):
        cid = "case:%d" % i
        if not ctx.want(cid):
            continue
        rng = ctx.rng("case", i)
        j = i % 180
        kind, degree = KINDS[j % 5]
        tname = TRANSFORMS[j % 9]
        cl = (j // 45 + j) % 4
        cplx, loc = bool(cl & 1), ("node", "element")[cl >> 1]
        domcls = DOM_CLASSES[(i + i // 180) % 6]
        base = pool[(i + i // len(pool)) % len(pool)]
        mesh = M.distort(base, rng) if i % 4 else base.copy()
        mesh = M.permute_elements(M.permute_vertices(mesh, rng.permutation(mesh.nv)), rng.permutation(mesh.ne))
        mesh.V = mesh.V * 10.0 ** int(rng.integers(-3, 4))
        mesh.D = draw_domains(rng, mesh.ne, domcls, mesh.D)
        if len(set(mesh.D.tolist())) == 1:  # the class in a mechanism key is what the array is, not what was asked for (tiny meshes)
            domcls = "single_valued" if mesh.D[0] else "all_zero"
        descr = {"mesh": base.name, "nv": mesh.nv, "ne": mesh.ne, "domain_class": domcls, "space": "%s%d" % (kind, degree),
                 "complex_coefficients": cplx, "data_type": loc, "transformation": tname if isinstance(tname, str) else None}
        ctx.case(cid, descr, nontrivial=mesh.ne >= 2)
        data = dict(descr, V=mesh.V, E=mesh.E, D=mesh.D)
        grid = None
        with ctx.guard(cid, "grid:constructor"):
            grid = M.to_grid(mesh)
        if grid is None:
            continue
        check_grid_export(ctx, cid, api, meshio, cal, grid, mesh, domcls, data, seen)
        # every fourth block of five cases hands over SINGLE-precision coefficients (float32 / complex64)
        check_function_export(ctx, cid, api, meshio, cal, grid, mesh, rng, kind, degree, cplx, loc, tname, data, seen, single=(i // 5) % 4 == 1)

    ctx.note("calibration_by_direct_meshio_roundtrip", cal.table())
    ctx.note("coverage_seen", {k: sorted(str(x) for x in v) for k, v in seen.items()})
    c = ctx.counters
    ctx.obligation("msh grid round trip compared in ascii and in binary", partial or {"ascii", "binary"} <= seen["mode"], sorted(seen["mode"]))
    ctx.obligation("grid export reached a verdict (compared, or reported unreadable) for every format", partial or set(FORMATS) <= seen["grid_format"], sorted(seen["grid_format"]))
    ctx.obligation("function export reached a verdict (data compared, or reported missing/unreadable) for every format", partial or set(FORMATS) <= seen["function_format"],
                   {"verdict": sorted(seen["function_format"]), "data_compared": sorted(seen["function_format_compared"])})
    ctx.obligation("function data compared for .msh and .vtu", partial or {".msh", ".vtu"} <= seen["function_format_compared"], sorted(seen["function_format_compared"]))
    ctx.obligation("every domain-index class round-tripped (incl. all-zero, single-valued, large)", partial or set(DOM_CLASSES) <= seen["dom_class"], sorted(seen["dom_class"]))
    ctx.obligation("function data compared for every space kind", partial or {"%s%d" % k for k in KINDS} <= seen["kind"], sorted(seen["kind"]))
    ctx.obligation("function data compared for every transformation", partial or {str(t) for t in TRANSFORMS} <= seen["transformation"], sorted(seen["transformation"]))
    ctx.obligation("real and complex exported data compared", partial or {"real", "complex"} <= seen["dtype_class"], sorted(seen["dtype_class"]))
    ctx.obligation("node and element data compared", partial or {"node", "element"} <= seen["loc"], sorted(seen["loc"]))
    ctx.note("files", {k: c.get(k, 0) for k in ("grid_files_compared", "function_files_compared", "function_values_compared")})
    ctx.finish()


def mesh_part_problems(r, V, E, tol):
    """Vertices and connectivity of a meshio mesh against the grid."""
    out = []
    t = tri_cells(r)
    if t is None or not np.array_equal(np.asarray(t).astype(np.int64), E.T):
        out.append(("connectivity", "triangle connectivity read back differs from grid.elements"))
    ok, msg = close(r.points, V.T, tol)
    if not ok:
        out.append(("vertices", "points read back differ from grid.vertices: " + msg))
    return out


def check_grid_export(ctx, cid, api, meshio, cal, grid, mesh, domcls, data, seen):
    V, E = np.asarray(grid.vertices), np.asarray(grid.elements).astype(np.int64)
    D = np.asarray(grid.domain_indices).astype(np.int64)
    for ext in FORMATS:
        for binary in (True, False):
            mode, fn = mode_name(binary), "grid_%s%s" % (mode_name(binary), ext)
            cap = cal.caps(ext, binary)
            if not cap["ok"]:
                ctx.count("grid_skipped:%s:%s:%s" % (ext, mode, cap["why"][:60]))
                continue
            where = "%s %s grid export, %s domain indices" % (ext, mode, domcls)
            with ctx.guard(cid, "export_grid:%s:%s" % (ext[1:], domcls)):
                with quiet():
                    api.export(fn, grid=grid, write_binary=binary)
                try:
                    with quiet():
                        r = meshio.read(fn)
                except Exception as e:  # noqa: BLE001
                    ctx.violation("export_grid:%s:unreadable_by_meshio" % ext[1:], "%s: meshio cannot read the file bempp wrote (%s: %s) although "
                                  "it round-trips a reference file of this format" % (where, type(e).__name__, str(e)[:200]), cid, data)
                    seen["grid_format"].add(ext)
                    continue
                for what, msg in mesh_part_problems(r, V, E, cap["tol"]):
                    ctx.violation("export_grid:%s:%s" % (ext[1:], what), "%s: %s" % (where, msg), cid, data)
                tag = field(r, "element", "gmsh:physical" if ext == ".msh" else "domain_index")
                if tag is not None and not np.array_equal(np.asarray(tag).astype(np.int64).ravel(), D):
                    ctx.violation("export_grid:%s:domain_index_data:%s" % (ext[1:], domcls),
                                  "%s: the file's %s cell data differ from grid.domain_indices (file %s..., grid %s...)"
                                  % (where, "physical tags" if ext == ".msh" else "domain_index", np.asarray(tag).ravel()[:8].tolist(), D[:8].tolist()), cid, data)
                elif tag is None and ext == ".msh":
                    ctx.violation("export_grid:msh:domain_index_data:%s:missing" % domcls, "%s: no gmsh:physical tags in the file" % where, cid, data)
                with quiet():
                    g2 = api.import_grid(fn)
                key = "msh_roundtrip" if ext == ".msh" else "import_roundtrip:%s" % ext[1:]
                ok, msg = close(np.asarray(g2.vertices), V, cap["tol"])
                if not ok:
                    ctx.violation(key + ":vertices", "%s -> import_grid: vertices differ: %s" % (where, msg), cid, data)
                if not np.array_equal(np.asarray(g2.elements).astype(np.int64), E):
                    ctx.violation(key + ":elements", "%s -> import_grid: elements differ" % where, cid, data)
                if ext == ".msh":
                    D2 = np.asarray(g2.domain_indices).astype(np.int64)
                    if not np.array_equal(D2, D):
                        ctx.violation("msh_roundtrip:domain_indices:%s" % domcls, "%s -> import_grid: domain indices differ (exported %s..., imported %s...)"
                                      % (where, D[:8].tolist(), D2[:8].tolist()), cid, data)
                    seen["mode"].add(mode)
                    seen["dom_class"].add(domcls)
                seen["grid_format"].add(ext)
                ctx.count("grid_files_compared")


def check_function_export(ctx, cid, api, meshio, cal, grid, mesh, rng, kind, degree, cplx, loc, tname, data, seen, single=False):
    V, E = np.asarray(grid.vertices), np.asarray(grid.elements).astype(np.int64)
    sname = "%s%d" % (kind, degree)
    gf = vals = None
    with ctx.guard(cid, "grid_function:%s:%s" % (sname, "evaluate_on_vertices" if loc == "node" else "evaluate_on_element_centers")):
        if kind in ("RWG", "SNC") and np.asarray(grid.edge_on_boundary).all():
            ctx.count("function_skipped:space_without_dofs")  # no interior edge: not a function space the property speaks about
            return
        space = api.function_space(grid, kind, degree)
        ndof = space.global_dof_count
        coeffs = rng.normal(size=ndof) + (1j * rng.normal(size=ndof) if cplx else 0.0)
        if single:
            coeffs = coeffs.astype(np.complex64 if cplx else np.float32)
            ctx.count("single_precision_coefficient_vectors")
        gf = api.GridFunction(space, coefficients=coeffs)
        vals = np.array(gf.evaluate_on_vertices() if loc == "node" else gf.evaluate_on_element_centers())
    if vals is None:
        return
    if loc == "node" and gf is not None and not single:
        # what "its vertex values" are (docstring of evaluate_on_vertices: weighted average of the element values at the
        # vertex, weights = element areas, cf. C13): recomputed here from pointwise evaluate() and the raw geometry, so that
        # the file is compared with the function and not only with the routine that feeds the writer
        with ctx.guard(cid, "grid_function:%s:vertex_values" % sname):
            corners = np.array([[0.0, 1.0, 0.0], [0.0, 0.0, 1.0]])
            acc = np.zeros(vals.shape, dtype=complex)
            wsum = np.zeros(vals.shape[1])
            P = V[:, E]   # (3 coords, 3 local, ne)
            area = 0.5 * np.linalg.norm(np.cross((P[:, 1] - P[:, 0]).T, (P[:, 2] - P[:, 0]).T), axis=1)
            for e in np.flatnonzero(np.asarray(gf.space.support)):
                lv = np.asarray(gf.evaluate(int(e), corners))
                for i in range(3):
                    acc[:, E[i, e]] += lv[:, i] * area[e]
                    wsum[E[i, e]] += area[e]
            used = wsum > 0
            ref_v = np.zeros_like(acc)
            ref_v[:, used] = acc[:, used] / wsum[used]
            dev_v = float(np.abs(ref_v - vals).max() / max(np.abs(ref_v).max(), 1e-300))
            ctx.count("vertex_value_models_compared")
            if dev_v > 1e-12:
                ctx.violation("grid_function:%s:vertex_values:not_area_weighted_average" % sname, "%s: evaluate_on_vertices() differs from the area-weighted average of the element values at the "
                              "vertices by %.3e (relative to max |value|)" % (cid, dev_v), cid, data)
    if single:
        # the model works in double precision on the (exactly converted) single-precision values; real / imag / None are
        # still exact, formulas evaluated by the library in single precision get a single-precision slack
        vals = vals.astype(np.complex128 if np.iscomplexobj(vals) else np.float64)
    want, slack = documented_transform(vals, tname)
    if single and tname not in (None, "real", "imag"):
        slack = max(slack, 4e-6)
    want = np.asarray(want)
    if want.ndim != 2 or not np.all(np.isfinite(want)):
        ctx.count("function_skipped:non_finite_expected_values")
        return
    dcls = "complex" if np.iscomplexobj(want) else "real"
    shape_cls = "scalar" if want.shape[0] == 1 else "vector"
    fields = {"real": want.real.T, "imag": want.imag.T} if dcls == "complex" else {"data": want.T}
    transform = CALLABLES.get(tname, tname)
    data = dict(data, coefficients=coeffs, expected=want)
    for ext in FORMATS:
        for binary in (True, False):
            mode, fn = mode_name(binary), "fun_%s%s" % (mode_name(binary), ext)
            where = "%s %s export of a %s %s function, data_type=%s, transformation=%s (%s %s data)" % (ext, mode, dcls, sname, loc, tname, dcls, shape_cls)
            base_cap = cal.caps(ext, binary)
            cap = cal.caps(ext, binary, loc, want.shape[0])
            with ctx.guard(cid, "export_function:%s:%s:%s" % (ext[1:], dcls, loc)):
                with quiet():
                    api.export(fn, grid_function=gf, data_type=loc, transformation=transform, write_binary=binary)
                ctx.count("function_files_written")
                if not base_cap["ok"] or (not cap["ok"] and cap["why"].startswith("meshio cannot")):
                    ctx.count("function_skipped:%s:%s:%s" % (ext, mode, cap.get("why", base_cap.get("why", ""))[:60]))
                    continue
                try:
                    with quiet():
                        r = meshio.read(fn)
                except Exception as e:  # noqa: BLE001
                    ctx.violation("export_function:%s:%s:unreadable_by_meshio" % (ext[1:], loc), "%s: meshio cannot read the file bempp wrote (%s: %s) "
                                  "although it round-trips a reference file of this format" % (where, type(e).__name__, str(e)[:200]), cid, data)
                    seen["function_format"].add(ext)
                    continue
                for what, msg in mesh_part_problems(r, V, E, base_cap["tol"]):
                    ctx.violation("export_function:%s:%s" % (ext[1:], what), "%s: %s" % (where, msg), cid, data)
                if not cap["ok"]:
                    ctx.count("function_skipped:%s:%s:%s %s data: %s" % (ext, mode, shape_cls, loc, cap["why"][:50]))
                    continue
                seen["function_format"].add(ext)
                compared = False
                for name, w in fields.items():
                    got = field(r, loc, name)
                    if got is None:
                        ctx.violation("export_function:%s:%s:%s:%s:field_missing" % (ext[1:], dcls, loc, shape_cls),
                                      "%s: the file has no %s data called '%s' (meshio stores %s %s data of this format when given directly); file has point data %s, "
                                      "cell data %s" % (where, "point" if loc == "node" else "cell", name, shape_cls, loc, sorted(r.point_data), sorted(r.cell_data)), cid, data)
                        continue
                    ok, msg = close(got, w, cap["tol"], slack)
                    compared = True
                    ctx.count("function_values_compared", w.size)
                    if not ok:
                        ctx.violation("export_function:%s:%s:%s:%s:values:%s" % (ext[1:], dcls, loc, shape_cls, tname),
                                      "%s: '%s' read back differs from the expected values: %s" % (where, name, msg), cid, data)
                if compared:
                    for k, v in (("function_format_compared", ext), ("kind", sname), ("transformation", str(tname)), ("dtype_class", dcls), ("loc", loc)):
                        seen[k].add(v)
                    ctx.count("function_files_compared")


if __name__ == "__main__":
    main()
