"""C16 — assembly results are independent of thread count and scheduling.

Two monitors.
 * write-set monitor (decides the data-race guarantee, deterministically): the colouring walker on every space of
   a broad space workload, and the launch recorder on every regular-kernel launch of the operator workload: the
   test elements processed in one parallel launch must write pairwise disjoint rows.
 * determinism monitor (decides the observable): the same operator / potential assembled under thread counts
   {1,2,7,16} x parallel chunk sizes {0,1,3} x repetitions, with CPU noise threads and with concurrent Python
   threads assembling other operators, on the omp layer (main process) and the workqueue layer (sub-worker):
   SHA-1 of the result bytes must be a single value per operator.
"""

import hashlib
import threading
import time

import numpy as np

from vlib import boot
from vlib.verdict import Ctx


def operator_workload(api, M, S, O, ctx):
    """Returns list of (name, thunk) where thunk() -> ndarray; every call builds a fresh operator (no cached weak form)."""
    rng = ctx.rng("ops")
    mesh = M.distort(M.refine(M.octahedron(), 2), rng)  # 128 elements
    mesh = M.assign_domains(mesh, rng, 3, values=[2, 5, 9])
    grid = M.to_grid(mesh)
    scr = M.to_grid(M.distort(M.screen(5), rng))
    par = O.params(api, 4, 4)
    dp0 = api.function_space(grid, "DP", 0)
    p1 = api.function_space(grid, "P", 1)
    p1seg = api.function_space(grid, "P", 1, segments=[2, 9], include_boundary_dofs=True, truncate_at_segment_edge=False)
    rwg = api.function_space(grid, "RWG", 0)
    snc = api.function_space(grid, "SNC", 0)
    pts = rng.normal(size=(3, 61)) * 3.0
    pts = pts[:, np.linalg.norm(pts, axis=0) > 2.0]
    c_p1 = api.GridFunction(p1, coefficients=rng.normal(size=p1.global_dof_count))
    c_rwg = api.GridFunction(rwg, coefficients=rng.normal(size=rwg.global_dof_count) + 1j * rng.normal(size=rwg.global_dof_count))
    W = []
    W.append(("laplace.V[dp0,dp0]", lambda: O.dense(O.boundary(api, "laplace", "single_layer", dp0, dp0, dp0, parameters=par))))
    W.append(("laplace.K[p1seg,p1]", lambda: O.dense(O.boundary(api, "laplace", "double_layer", p1seg, p1, p1, parameters=par))))
    W.append(("laplace.W[p1,p1]", lambda: O.dense(O.boundary(api, "laplace", "hypersingular", p1, p1, p1, parameters=par))))
    W.append(("helmholtz.V[p1,p1seg]", lambda: O.dense(O.boundary(api, "helmholtz", "single_layer", p1, p1, p1seg, 1.3 + 0.2j, parameters=par))))
    # two spaces of the SAME kind on the SAME support whose dof maps differ (boundary dofs only on the test side): the test
    # colouring must come from the test space's own dof map
    p1in = api.function_space(grid, "P", 1, segments=[2, 9])
    p1bd = api.function_space(grid, "P", 1, segments=[2, 9], include_boundary_dofs=True)
    ctx.note("same_support_pair", {"supports_equal": bool(np.array_equal(p1in.support, p1bd.support)), "dofs": [int(p1in.global_dof_count), int(p1bd.global_dof_count)]})
    W.append(("helmholtz.V[p1in,p1bd]", lambda: O.dense(O.boundary(api, "helmholtz", "single_layer", p1in, p1bd, p1bd, 1.3 + 0.2j, parameters=par))))
    W.append(("maxwell.E[rwg,snc]", lambda: O.dense(O.boundary(api, "maxwell", "electric_field", rwg, rwg, snc, 0.9, parameters=par))))
    W.append(("laplace.pot.DL[p1]", lambda: np.asarray(O.potential(api, "laplace", "double_layer", p1, pts, parameters=par).evaluate(c_p1))))
    # very few evaluation points (fewer points than threads): work is then split differently, the values must not know
    W.append(("laplace.pot.DL[p1] 1 point", lambda: np.asarray(O.potential(api, "laplace", "double_layer", p1, pts[:, :1], parameters=par).evaluate(c_p1))))
    W.append(("laplace.pot.DL[p1] 3 points", lambda: np.asarray(O.potential(api, "laplace", "double_layer", p1, pts[:, 1:4], parameters=par).evaluate(c_p1))))
    # an operator between two DIFFERENT grids (off-diagonal block of a two-body problem)
    mscr2 = M.distort(M.screen(4), rng)
    mscr2.V = mscr2.V + np.array([[0.4], [-0.2], [2.3]])
    p1scr = api.function_space(M.to_grid(mscr2), "P", 1, include_boundary_dofs=True)
    W.append(("laplace.K[p1,p1@screen] two grids", lambda: O.dense(O.boundary(api, "laplace", "double_layer", p1, p1scr, p1scr, parameters=par))))
    W.append(("sparse.M[p1,dp0]", lambda: O.dense(O.boundary(api, "sparse", "identity", p1, p1, dp0, parameters=par))))
    if not ctx.quick:
        p1s = api.function_space(scr, "P", 1, include_boundary_dofs=True)
        rwgseg = api.function_space(grid, "RWG", 0, segments=[5], include_boundary_dofs=True, truncate_at_segment_edge=False)
        sncseg = api.function_space(grid, "SNC", 0, segments=[5], include_boundary_dofs=True, truncate_at_segment_edge=False)
        dp1 = api.function_space(grid, "DP", 1)
        W.append(("modified_helmholtz.K'[p1,p1]", lambda: O.dense(O.boundary(api, "modified_helmholtz", "adjoint_double_layer", p1, p1, p1, 0.7, parameters=par))))
        W.append(("helmholtz.W[p1,p1]", lambda: O.dense(O.boundary(api, "helmholtz", "hypersingular", p1, p1, p1, 1.1, parameters=par))))
        W.append(("modified_helmholtz.W[p1,p1]", lambda: O.dense(O.boundary(api, "modified_helmholtz", "hypersingular", p1, p1, p1, 0.6, parameters=par))))
        W.append(("maxwell.H[rwgseg,sncseg]", lambda: O.dense(O.boundary(api, "maxwell", "magnetic_field", rwgseg, rwgseg, sncseg, 1.2 + 0.1j, parameters=par))))
        W.append(("laplace.V[dp1,p1] screen/closed", lambda: O.dense(O.boundary(api, "laplace", "single_layer", dp1, p1s, p1s, parameters=par))))
        W.append(("maxwell.pot.E[rwg]", lambda: np.asarray(O.potential(api, "maxwell", "electric_field", rwg, pts, 0.9, parameters=par).evaluate(c_rwg))))
        W.append(("helmholtz.pot.SL[p1]", lambda: np.asarray(O.potential(api, "helmholtz", "single_layer", p1, pts, 1.3, parameters=par).evaluate(c_p1))))
        W.append(("helmholtz.ff.DL[p1]", lambda: np.asarray(O.far_field(api, "helmholtz", "double_layer", p1, pts / np.linalg.norm(pts, axis=0), 1.3, parameters=par).evaluate(c_p1))))
        W.append(("sparse.LB[p1,p1]", lambda: O.dense(O.boundary(api, "sparse", "laplace_beltrami", p1, p1, p1, parameters=par))))
    return W


def digest(a):
    a = np.ascontiguousarray(a)
    return hashlib.sha1(a.tobytes() + str(a.dtype).encode() + str(a.shape).encode()).hexdigest()


def determinism(ctx, W, layer):
    import numba

    have_chunk = hasattr(numba, "set_parallel_chunksize")
    threads = [1, 2, 7, 16]   # the property's counts; on a machine with fewer threads the available odd / even counts instead
    if numba.config.NUMBA_NUM_THREADS < 7:
        threads = sorted(set(threads) | {3, numba.config.NUMBA_NUM_THREADS})
    chunks = [0, 1, 3] if have_chunk else [0]
    reps = 2 if ctx.quick else 5
    schedules = set()
    stop = threading.Event()

    def hog():
        # CPU noise that releases the GIL (NumPy kernels), so that it perturbs the scheduling of the OpenMP /
        # workqueue worker threads without starving the interpreter thread that drives the workload
        a = np.random.default_rng(1).normal(size=(160, 160))
        while not stop.is_set():
            a = np.tanh(a @ a * 1e-2)
            time.sleep(0.0005)

    hogs = [threading.Thread(target=hog, daemon=True) for _ in range(4)]
    for h in hogs:
        h.start()
    table = {}
    try:
        for name, thunk in W:
            cid = "det:%s:%s" % (layer, name)
            if not ctx.want(cid):
                continue
            hashes = {}
            with ctx.guard(cid, "determinism"):
                for nt in threads:
                    if nt > numba.config.NUMBA_NUM_THREADS:
                        continue
                    numba.set_num_threads(nt)
                    for ch in chunks:
                        if have_chunk:
                            numba.set_parallel_chunksize(ch)
                        for r in range(reps):
                            h = digest(thunk())
                            hashes.setdefault(h, []).append((nt, ch, r))
                            schedules.add((layer, nt, ch))
                            ctx.count("assemblies")
                if have_chunk:
                    numba.set_parallel_chunksize(0)
                numba.set_num_threads(min(8, numba.config.NUMBA_NUM_THREADS))
                ctx.case(cid, {"operator": name, "layer": layer, "assemblies": sum(len(v) for v in hashes.values()), "distinct_hashes": len(hashes)})
                table[name] = sorted(hashes)[0][:12] if hashes else None
                if len(hashes) != 1:
                    ctx.violation("determinism:result_depends_on_schedule", "%s on layer %s: %d distinct results; (threads, chunk, rep) by hash: %s"
                                  % (name, layer, len(hashes), {k[:8]: v[:4] for k, v in hashes.items()}), cid)
    finally:
        stop.set()
    ctx.note("schedules_%s" % layer, sorted(schedules))
    ctx.note("hash_per_operator_%s" % layer, table)
    return table


def concurrent_python_threads(ctx, W, table, layer):
    """Interleave assemblies of different operators from several Python threads; results must equal the serial hashes."""
    import numba

    numba.set_num_threads(4)
    names = [n for n, _ in W if n in table]
    thunks = dict(W)
    results = {}
    errors = []
    rounds = 2 if ctx.quick else 6

    def work(tid):
        try:
            for r in range(rounds):
                for i, n in enumerate(names):
                    if (i + tid) % 2 == 0:
                        h = digest(thunks[n]())
                        results.setdefault(n, set()).add(h)
        except Exception as e:  # noqa: BLE001
            errors.append(repr(e))

    cid = "det:%s:concurrent_python_threads" % layer
    if not ctx.want(cid):
        return
    ths = [threading.Thread(target=work, args=(t,)) for t in range(4)]
    for t in ths:
        t.start()
    for t in ths:
        t.join()
    ctx.case(cid, {"threads": 4, "operators": len(names), "rounds": rounds})
    for e in errors:
        ctx.violation("determinism:exception_in_concurrent_assembly", e, cid)
    for n, hs in results.items():
        if {h[:12] for h in hs} != {table[n]}:
            ctx.violation("determinism:result_depends_on_interleaving", "%s assembled from 4 Python threads: hashes %s vs serial %s" % (n, sorted(h[:12] for h in hs), table[n]), cid)


def main():
    ctx = Ctx("C16")
    ctx.rule = ("(a) colouring walker on spaces drawn as in C09 (all kinds, segment/support subsets, option combinations, localised and barycentric "
                "spaces); (b) launch recorder on every kernel launch of an operator workload: rows written by the test elements of one parallel launch "
                "must be pairwise disjoint; (c) each operator re-assembled under thread counts x chunk sizes x repetitions x threading layers, with noise "
                "threads and concurrent Python threads: one SHA-1 per operator. Distinct = distinct (space config) resp. (operator, layer).")
    ctx.assumptions = ["a data race can only arise between iterations of one prange loop, i.e. between test elements of one regular-kernel launch "
                       "(singular, sparse and potential kernels write slot index*nshape^2 resp. column point_index by construction; the recorder checks the slot arithmetic)",
                       "ThreadSanitizer/helgrind cannot see Numba JIT code; the write-set monitor is the deterministic substitute (DESIGN.md §1)"]
    layer = "workqueue" if ctx.worker == "wq" else "omp"
    boot.boot(layer=layer)
    import bempp_cl.api as api
    import numba
    from vlib import meshes as M, monitors as mon, spaces as S, ops as O
    from checks.C09 import mesh_pool

    rec = mon.LAUNCH.install()
    rec.keep_log = False

    if not ctx.worker:
        ctx.spawn_worker("checks.C16", "wq", {"VERIF_LAYER": "workqueue"})

    # ------------------------------------------------------------------ (a) colouring walker
    ncol = 0
    maxcol = 0
    artificial = 0
    if not ctx.worker:
        pool = mesh_pool(M, ctx)
        # vertices shared by MANY elements (more colours than any fixed-width bookkeeping holds): apex valences 70 and 130
        pool.append((M.bipyramid(70), "high-valence"))
        if not ctx.quick:
            pool += [(M.bipyramid(130), "high-valence"), (M.bipyramid(90, closed=False), "high-valence")]
        nvar = 6 if ctx.quick else 24
        for mesh, cls in pool:
            grid = M.to_grid(mesh)
            topo = S.Topo(mesh.V, mesh.E)
            for kind, degree in S.KINDS:
                if kind in ("BC", "RBC", "DUAL") and mesh.ne > (40 if ctx.quick else 200):
                    continue
                for variant in range(nvar):
                    cid = "col:%s:%s%d:%d" % (mesh.name, kind, degree, variant)
                    if not ctx.want(cid):
                        continue
                    rng = ctx.rng(mesh.name, kind, degree, variant)
                    opts = S.random_opts(rng, mesh, kind, degree, variant)
                    exp = S.expected_entities(topo, mesh.D, kind, degree, opts)
                    if exp is not None and len(exp[1]) == 0:
                        continue
                    with ctx.guard(cid, "color", allow=S.ALLOWED_REJECTIONS):
                        sp = S.make_space(api, grid, kind, degree, **opts)
                        todo = [("space", sp), ("localised", sp.localised_space)]
                        if kind in ("DP", "P", "RWG", "SNC") and not (kind == "DP" and degree == 1) and mesh.ne <= 40 and variant % 3 == 0:
                            b = sp.barycentric_representation()
                            if b is not None:
                                todo += [("barycentric", b), ("barycentric.localised", b.localised_space)]
                        for what, s in todo:
                            probs = S.color_problems(s)
                            ncol += 1
                            maxcol = max(maxcol, int(np.asarray(s.color_map).max()) + 1)
                            artificial += int(np.sum((np.asarray(s.local_multipliers) == 0) & np.asarray(s.support)[:, None]))
                            for m, msg in probs:
                                ctx.violation(m, "%s (%s): %s" % (cid, what, msg), cid, data={"mesh": mesh.describe(), "kind": kind, "degree": degree, "opts": S.opts_key(opts)})
                        ctx.case(cid, {"mesh": mesh.name, "kind": kind, "degree": degree, "opts": S.opts_key(opts)}, nontrivial=sp.number_of_support_elements >= 2)
        ctx.note("colour_maps_walked", ncol)
        ctx.note("max_colours", maxcol)
        ctx.note("zero_multiplier_local_dofs_seen", artificial)

    ctx.lap("colouring_walker")
    # ------------------------------------------------------------------ (b)+(c) operators
    W = operator_workload(api, M, S, O, ctx)
    for name, thunk in W:  # JIT warm-up, timed separately
        if ctx.want("det:%s:%s" % (layer, name)):
            with ctx.guard("warmup:" + name, "determinism"):
                thunk()
    ctx.lap("jit_warmup")
    # ---- "in any interleaving with other assemblies": space objects whose FIRST assembly happens while Numba is limited to one
    # thread, reused afterwards with several threads (anything a space memoises on first use must not depend on the thread count)
    cid = "det:%s:thread_history" % layer
    if ctx.want(cid):
        import numba

        with ctx.guard(cid, "determinism"):
            rngh = ctx.rng("thread_history")
            gh = M.to_grid(M.distort(M.refine(M.octahedron(), 2), rngh))
            parh = O.params(api, 4, 4)
            hashes_h = {}
            try:
                numba.set_num_threads(1)
                p1h = api.function_space(gh, "P", 1)
                rwgh, snch = api.function_space(gh, "RWG", 0), api.function_space(gh, "SNC", 0)
                thunks_h = [("laplace.K[p1,p1]", lambda: O.dense(O.boundary(api, "laplace", "double_layer", p1h, p1h, p1h, parameters=parh))),
                            ("maxwell.E[rwg,snc]", lambda: O.dense(O.boundary(api, "maxwell", "electric_field", rwgh, rwgh, snch, 0.9, parameters=parh)))]
                for nm_, th_ in thunks_h:
                    hashes_h[nm_] = [digest(th_())]
                for nt in [t_ for t_ in (2, 3, 7, 16) if t_ <= numba.config.NUMBA_NUM_THREADS][-2:]:
                    numba.set_num_threads(nt)
                    for nm_, th_ in thunks_h:
                        for _ in range(2):
                            hashes_h[nm_].append(digest(th_()))
            finally:
                numba.set_num_threads(numba.config.NUMBA_NUM_THREADS)
            bad_h = {nm_: sorted(set(h_)) for nm_, h_ in hashes_h.items() if len(set(h_)) > 1}
            ctx.case(cid, {"operators": list(hashes_h), "assemblies": sum(len(h_) for h_ in hashes_h.values()), "distinct_results": {k_: len(set(v_)) for k_, v_ in hashes_h.items()}})
            if bad_h:
                ctx.violation("determinism:result_depends_on_thread_history", "%s: spaces first assembled under one thread give %s distinct results when reused under more threads"
                              % (cid, {k_: len(v_) for k_, v_ in bad_h.items()}), cid)
        for m, msg in rec.drain():
            ctx.violation(m, "%s: %s" % (cid, msg), cid)
    ctx.lap("thread_history")
    table = determinism(ctx, W, layer)
    ctx.lap("determinism")
    if layer == "omp":
        concurrent_python_threads(ctx, W, table, layer)
    for m, msg in rec.drain():
        ctx.violation(m, msg, "launch")
    ctx.note("launch_recorder_" + layer, rec.summary())

    partial = ctx.only_case is not None or bool(ctx.args.only)
    if not ctx.worker:
        ctx.obligation("colouring walker reached spaces with zero-multiplier (artificial) dofs", partial or artificial > 0, artificial)
        ctx.obligation("colouring walker saw >= 100 colour maps", partial or ncol >= 100, ncol)
    ctx.obligation("launch recorder observed regular launches with >= 2 test elements", partial or rec.max_parallel_elements >= 2, rec.summary())
    try:
        used_layer = numba.threading_layer()
    except ValueError:   # no parallel region was entered (only possible in a filtered run)
        used_layer = None
    ctx.obligation("numba threading layer is the requested one", used_layer == layer or (partial and used_layer is None), used_layer)
    ctx.finish()


if __name__ == "__main__":
    main()
