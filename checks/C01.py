"""C01 — Laplace boundary operators satisfy the Calderon identities on any polyhedron.

Oracle: analytic. For affine u the traces lie exactly in P1 / DP0 on every polyhedron, so
(1/2 M + K) g = V psi and W g = (1/2 M' - K') psi hold up to quadrature error only; decided by convergence
over a ladder of (regular, singular) orders.
"""

import numpy as np

from vlib import boot
from vlib.verdict import Ctx

LADDER = [(4, 4), (6, 6), (8, 8), (10, 8), (12, 10)]
# "once the quadrature orders are raised": on coarse, distorted meshes the Duffy rules converge geometrically but
# slowly (the rate depends on the element shapes), so the ladder is extended until the residual is below 1e-6.
EXTRA = [(14, 12), (16, 14), (20, 18)]


def residuals(api, O, grid, a, b, order):
    par = O.params(api, *order)
    p1 = api.function_space(grid, "P", 1)
    dp0 = api.function_space(grid, "DP", 0)
    g, psi = O.affine_traces(p1, dp0, a, b)
    V = O.dense(O.boundary(api, "laplace", "single_layer", dp0, p1, p1, parameters=par))
    K = O.dense(O.boundary(api, "laplace", "double_layer", p1, p1, p1, parameters=par))
    W = O.dense(O.boundary(api, "laplace", "hypersingular", p1, p1, p1, parameters=par))
    Kp = O.dense(O.boundary(api, "laplace", "adjoint_double_layer", dp0, p1, p1, parameters=par))
    M = O.dense(O.boundary(api, "sparse", "identity", p1, p1, p1, parameters=par))
    Mp = O.dense(O.boundary(api, "sparse", "identity", dp0, p1, p1, parameters=par))
    for name, A in (("V", V), ("K", K), ("W", W), ("K'", Kp), ("M", M), ("M'", Mp)):
        if not np.all(np.isfinite(A)):
            raise FloatingPointError("non-finite entries in " + name)
    rhs1 = V @ psi
    res1 = np.linalg.norm((0.5 * M + K) @ g - rhs1) / np.linalg.norm(rhs1)
    rhs2 = (0.5 * Mp - Kp) @ psi
    res2 = np.linalg.norm(W @ g - rhs2) / np.linalg.norm(rhs2)
    return float(res1), float(res2)


def pool(M, ctx):
    """Mildly distorted meshes (well-shaped elements) for the core pool: the *rate* of the Duffy rules depends on the
    element shapes, and the property speaks of bounded aspect ratio. Strongly distorted ones are added in the thorough
    tier, where the ladder may be extended further."""
    rng = ctx.rng("pool")
    mild = dict(jitter=0.05, strength=0.15, min_angle=25.0)
    out = [("tetra_r1", M.distort(M.refine(M.tetrahedron(), 1), rng, **mild)),
           ("octa_r1", M.distort(M.refine(M.octahedron(), 1), rng, **mild)),
           ("cube", M.distort(M.cube(), rng, **mild)),
           ("lprism", M.distort(M.l_prism(), rng, **mild)),
           ("torus", M.distort(M.torus(6, 4), rng, **mild)),
           ("two_solids", M.distort(M.two_solids(), rng, **mild))]
    # the identities do not know units: a physically tiny copy (element distances ~1e-6) is in the core pool
    out.append(("cube|s1e-05", M.scale(out[2][1], 1e-5)))
    # the smallest closed surface: every pair of its four elements shares an edge (no vertex-adjacent pair at all)
    out.append(("tetra_raw", M.distort(M.tetrahedron(), rng, **mild)))
    if not ctx.quick:
        out += [("icosa", M.distort(M.icosahedron(), rng, **mild)), ("voxring", M.voxel_ring()), ("shell", M.refine(M.nested_shell(), 1)),   # (refined: elements not larger than the gap between the two surfaces)
                ("dented", M.distort(M.dented_block(), rng, **mild)),
                ("ellipsoid", M.distort(M.project_to_ellipsoid(M.refine(M.icosahedron(), 1), (1.0, 0.8, 0.6)), rng, **mild)),
                ("cube_r1", M.distort(M.refine(M.cube(), 1), rng, **mild)),
                ("tetra_strong", M.distort(M.tetrahedron(), rng)), ("cube_strong", M.distort(M.cube(), rng)),
                ("torus_strong", M.distort(M.torus(6, 4), rng))]
        base = list(out)
        for name, m in base[:2]:   # (time budget of the thorough tier: ~40 ladders, the expensive part is orders >= 14 on the larger meshes)
            for s, t in ((1e5, 0.0), (1.0, 1e3)):
                mm = M.scale(m, s)
                mm.V = mm.V + t * mm.diameter() * np.array([[0.3], [-0.5], [0.8]])
                out.append(("%s|s%g|t%g" % (name, s, t), mm))
    return out


def main():
    ctx = Ctx("C01")
    ctx.rule = ("closed outward-oriented meshes (convex, non-convex, genus 1, multi-component, scaled/translated, relabelled) x random affine u x ladder of "
                "(regular, singular) orders %s; a case = (mesh, relabelling, u, ladder); decided by convergence of both Calderon residuals. "
                "Distinct = distinct (mesh hash, u); non-trivial = mesh has >= 1 non-adjacent element pair or >= 4 elements." % (LADDER,))
    ctx.assumptions = ["violated iff the residual at the top of the ladder is >= 1e-6 or is not >= 30x smaller than at (6,6) (unless already < 1e-11)",
                       "traces of affine u are exactly representable, so the identities have no discretisation error"]
    boot.boot()
    import bempp_cl.api as api
    from vlib import meshes as M, monitors as mon, ops as O

    rec = mon.LAUNCH.install()
    hooks = mon.HOOKS.install()
    if not ctx.worker:
        ctx.spawn_san("checks.C01")

    meshes = pool(M, ctx)
    if ctx.worker == "san":
        meshes = meshes[1:3]
    nrel = 1 if ctx.quick else 3
    nu = 1 if ctx.quick else 2
    adj_classes = {"edge": set(), "vertex": set()}
    worst = {"res1_top": 0.0, "res2_top": 0.0}
    topo_types = set()
    for mi_, (name, base) in enumerate(meshes):
        if ctx.enough():
            break   # verdict decided: every further violating ladder would be extended to the most expensive orders
        if not ctx.quick and not ctx.worker and mi_ >= 3:
            nrel, nu = 0, 1   # thorough: three relabellings x two functions on the first three meshes, the plain numbering on the other ~20
        for r in range(nrel + 1):
            cidm = "%s:rel%d" % (name, r)
            rng = ctx.rng(name, r)
            m = base
            if r:
                m = M.permute_vertices(m, rng.permutation(m.nv))
                m = M.permute_elements(m, rng.permutation(m.ne))
                m = M.rotate_local(m, rng.integers(0, 3, size=m.ne))
            for ui in range(nu):
                cid = "%s:u%d" % (cidm, ui)
                if not ctx.want(cid):
                    continue
                a = rng.normal(size=3)
                a /= np.linalg.norm(a)
                b = float(rng.normal()) * m.diameter()
                with ctx.guard(cid, "calderon"):
                    grid = M.to_grid(m)
                    ea = np.asarray(grid.edge_adjacency)
                    va = np.asarray(grid.vertex_adjacency)
                    adj_classes["edge"] |= {tuple(c) for c in ea[2:].T.tolist()}
                    adj_classes["vertex"] |= {tuple(c) for c in va[2:].T.tolist()}
                    topo_types.add(name.split("|")[0])
                    ladder = LADDER if ctx.worker != "san" else [(4, 4), (6, 6)]
                    res = [residuals(api, O, grid, a, b, o) for o in ladder]
                    if ctx.worker != "san":
                        for o in (EXTRA[1:2] + EXTRA[2:] if ctx.quick else EXTRA):
                            if max(res[-1]) < 1e-6:
                                break
                            res.append(residuals(api, O, grid, a, b, o))
                            ladder = ladder + [o]
                            ctx.count("ladder_extended_to_%d_%d" % o)
                    ctx.case(cid, {"mesh": m.describe(), "a": a, "b": b, "ladder": ladder, "res": res})
                    if ctx.worker == "san":
                        ctx.note("san_res_%s" % cid, res)
                        continue
                    r1 = [x[0] for x in res]
                    r2 = [x[1] for x in res]
                    worst["res1_top"] = max(worst["res1_top"], r1[-1])
                    worst["res2_top"] = max(worst["res2_top"], r2[-1])
                    for tag, rr in (("first_identity", r1), ("second_identity", r2)):
                        top, ref = rr[-1], rr[1]
                        if not np.isfinite(top) or top >= 1e-6:
                            ctx.violation("calderon:%s:not_below_1e-6" % tag, "%s: residuals along the ladder %s" % (cid, ["%.2e" % x for x in rr]), cid,
                                          data={"V": m.V, "E": m.E, "a": a, "b": b, "res": res})
                        elif top > ref / 30 and top > 1e-11:
                            ctx.violation("calderon:%s:no_convergence" % tag, "%s: residuals along the ladder %s" % (cid, ["%.2e" % x for x in rr]), cid,
                                          data={"V": m.V, "E": m.E, "a": a, "b": b, "res": res})
                for mm, msg in rec.drain():
                    ctx.violation(mm, msg, cid)
                for origin, mm, msg in hooks.drain():
                    ctx.note("cross_monitor_note", "%s %s %s" % (origin, mm, msg))
    ctx.note("worst_top_residuals", worst)
    ctx.note("edge_adjacency_classes_seen", len(adj_classes["edge"]))
    ctx.note("vertex_adjacency_classes_seen", len(adj_classes["vertex"]))
    ctx.note("launch_recorder", rec.summary())
    partial = ctx.only_case is not None or bool(ctx.args.only) or bool(ctx.worker)
    ctx.obligation(">= 6 orientable edge classes and all 9 vertex classes reached the singular assembler",
                   partial or (len(adj_classes["edge"]) >= 6 and len(adj_classes["vertex"]) == 9), {k: len(v) for k, v in adj_classes.items()})
    ctx.obligation(">= 3 topological types", partial or len(topo_types) >= 3, sorted(topo_types))
    ctx.obligation("singular and regular launches observed", partial or (rec.counts.get("regular:default_scalar_regular_kernel", 0) > 0 and rec.counts.get("singular:default_scalar_singular_kernel", 0) > 0), rec.counts)
    ctx.finish()


if __name__ == "__main__":
    main()
