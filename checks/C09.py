"""C09 — function spaces are conforming and their DOF maps are coherent.

Monitor: invariant walker (vlib.spaces.space_problems) on every space the workload constructs; the generic part is
also installed as a post-condition of FunctionSpace.__init__ so that localised spaces, barycentric representations
and internally built coarse spaces are walked too. Reference: brute-force entity model.
"""

import numpy as np

from vlib import boot
from vlib.verdict import Ctx, Rejected


def mesh_pool(M, ctx):
    rng = ctx.rng("pool")
    pool = []

    def add(m, cls, ndom=3):
        if len(set(m.D.tolist())) < 2 and ndom and m.ne >= 4:
            m = M.assign_domains(m, rng, ndom=min(ndom, m.ne // 2), values=[3, 11, 7, 20][:min(ndom, m.ne // 2)])
        pool.append((m, cls))

    add(M.distort(M.octahedron(), rng), "closed")
    add(M.cube(face_domains=True), "multi-domain")
    add(M.distort(M.torus(5, 3), rng), "genus1")
    add(M.distort(M.screen(3), rng), "open")
    add(M.multitrace_cubes(), "multi-domain")
    add(M.distort(M.l_prism(), rng), "closed")
    # the multitrace use case of swapped_normals: one domain is stored with reversed element orientation and every space on
    # the grid names it in swapped_normals (the only grids on which BC/RBC accept a partial swap)
    m = M.distort(M.refine(M.octahedron(), 1), rng)
    m.D = np.where((m.V[2, m.E[0]] + m.V[2, m.E[1]] + m.V[2, m.E[2]]) < 0, 2, 1).astype(m.D.dtype)
    m = M.flip_orientation(m, m.D == 2)
    m.reversed = [2]
    pool.append((m, "reversed-domain"))
    if not ctx.quick:
        add(M.distort(M.icosahedron(), rng), "closed")
        add(M.distort(M.refine(M.tetrahedron(), 1), rng), "closed")
        add(M.voxel_ring(), "genus1")
        add(M.distort(M.screen_with_hole(4), rng), "open")
        add(M.cube_minus_face(), "open")
        add(M.two_solids(), "closed", ndom=0)
        add(M.nested_shell(), "closed", ndom=0)
        add(M.distort(M.dented_block(), rng), "closed")
        add(M.two_triangle_fan(), "open", ndom=0)
        add(M.single_triangle(), "open", ndom=0)
    return pool


def main():
    ctx = Ctx("C09")
    ctx.rule = ("spaces drawn as (mesh, kind/degree, option variant): segments / support_elements subsets, the four include_boundary_dofs x "
                "truncate_at_segment_edge combinations, swapped normals; each is walked (DOF maps, entity attachment, brute-force DOF count, "
                "continuity across every interior edge at 3 points with random coefficients, partition of unity). Distinct = distinct "
                "(mesh, kind, options); non-trivial = space has >= 2 global dofs.")
    ctx.assumptions = ["brute-force entity model in vlib/spaces.py (vertices/edges selected by the options, as documented in function_space's docstring)",
                       "edge spaces on supports where an edge has 3 supported neighbours are outside the model and skipped",
                       "continuity tolerance 1e-11 relative to coefficient x basis scale; partition of unity 1e-12"]
    boot.boot()
    import bempp_cl.api as api
    from vlib import meshes as M, monitors as mon, spaces as S

    hooks = mon.HOOKS
    hooks.space_fn = lambda sp: S.space_problems(sp, None)
    hooks.install()

    pool = mesh_pool(M, ctx)
    nvar = 8 if ctx.quick else 40
    coverage = {}
    cont = {"edges": 0, "skipped": 0, "worst": 0.0}
    pou = {"elements": 0, "worst": 0.0}
    for mi, (mesh, cls) in enumerate(pool):
        grid = M.to_grid(mesh)
        topo = S.Topo(mesh.V, mesh.E)
        for kind, degree in S.KINDS:
            for variant in range(nvar):
                cid = "%s:%s%d:%d" % (mesh.name, kind, degree, variant)
                if not ctx.want(cid):
                    continue
                rng = ctx.rng(mesh.name, kind, degree, variant)
                opts = S.random_opts(rng, mesh, kind, degree, variant)
                if getattr(mesh, "reversed", None):
                    opts["swapped_normals"] = list(mesh.reversed)
                descr = {"mesh": mesh.describe(), "class": cls, "kind": kind, "degree": degree, "opts": S.opts_key(opts)}
                rev = bool(getattr(mesh, "reversed", None))
                with ctx.guard(cid, "space:%s%d%s" % (kind, degree, ":reversed_orientation_grid" if rev else ""), allow=S.ALLOWED_REJECTIONS, site=rev):
                    if kind in ("BC", "RBC", "DUAL") and mesh.ne > (60 if ctx.quick else 200):
                        continue
                    exp = S.expected_entities(topo, mesh.D, kind, degree, opts)
                    if exp is not None and len(exp[1]) == 0:
                        # a selection without any DOF is not a function space the property speaks about
                        ctx.count("empty_selection_skipped")
                        continue
                    sp = S.make_space(api, grid, kind, degree, **opts)
                    meta = {"kind": kind, "degree": degree, "opts": opts, "coarse_grid": grid, "topo": topo}
                    ctx.case(cid, descr, nontrivial=sp.global_dof_count >= 2)
                    probs = S.space_problems(sp, meta, rng=rng)
                    partial_trunc = (("segments" in opts or "support_elements" in opts) and opts.get("truncate_at_segment_edge", kind not in ("DUAL",)))
                    for m, s in probs:
                        # classifier: keep the input class in the key so that a known finding on one class never hides another
                        if m.startswith(("space:continuity:BC", "space:continuity:RBC", "space:partition_of_unity:DUAL0")) and partial_trunc:
                            m += ":truncated_partial_support"
                        ctx.violation(m, "%s: %s" % (cid, s), cid, data=descr)
                    for origin, m, s in hooks.drain():
                        ctx.violation(m, "post-condition of %s during %s: %s" % (origin, cid, s), cid, data=descr)
                    c = meta.get("_continuity")
                    if c:
                        cont["edges"] += c["edges_checked"]
                        cont["skipped"] += c["edges_skipped"]
                        cont["worst"] = max(cont["worst"], c["worst"])
                    p = meta.get("_pou")
                    if p:
                        pou["elements"] += p["elements"]
                        pou["worst"] = max(pou["worst"], p["worst"])
                    combo = (opts.get("include_boundary_dofs"), opts.get("truncate_at_segment_edge"))
                    coverage.setdefault("%s%d" % (kind, degree), set()).add((cls, combo))
                    # barycentric representation of primal spaces is a space too
                    if kind in ("DP", "P", "RWG", "SNC") and not (kind == "DP" and degree == 1) and mesh.ne <= 60 and variant % 3 == 0:
                        b = sp.barycentric_representation()
                        if b is not None:
                            for m, s in S.space_problems(b, None):
                                ctx.violation("bary:" + m, "%s barycentric representation: %s" % (cid, s), cid, data=descr)
                            for origin, m, s in hooks.drain():
                                ctx.violation(m, "post-condition of %s during %s (barycentric): %s" % (origin, cid, s), cid, data=descr)
    ctx.note("continuity", cont)
    ctx.note("partition_of_unity", pou)
    ctx.note("space_constructor_postconditions_evaluated", hooks.space_calls)
    ctx.note("kind_coverage", {k: len(v) for k, v in coverage.items()})
    need = {"P1", "RWG0", "SNC0"}
    combos_ok = all(len({c for (_, c) in coverage.get(k, ())} & {(False, False), (False, True), (True, False), (True, True)}) == 4 for k in need)
    classes_ok = all({"closed", "open", "multi-domain", "genus1"} <= {cl for (cl, _) in coverage.get(k, ())} for k in need)
    partial = ctx.only_case is not None or bool(ctx.args.only)
    ctx.obligation("each of P1/RWG/SNC saw all four include_boundary_dofs x truncate_at_segment_edge combinations", partial or combos_ok)
    ctx.obligation("each of P1/RWG/SNC saw closed, open, multi-domain and genus-1 grids", partial or classes_ok)
    ctx.obligation("continuity monitor reached interior edges", partial or cont["edges"] > 100, cont["edges"])
    ctx.obligation("FunctionSpace.__init__ post-condition evaluated", partial or hooks.space_calls >= ctx.evaluations, hooks.space_calls)
    ctx.finish()


if __name__ == "__main__":
    main()
