"""Mesh families and group actions (NumPy only; no gmsh, no shipped shape data).

A mesh is a `Mesh(V, E, D, name)` with V (3, nv) float64, E (3, ne) int64, D (ne,) int64.
`to_grid(mesh)` turns it into a bempp_cl Grid (imported lazily).
"""

import itertools

import numpy as np


class Mesh:
    def __init__(self, V, E, D=None, name="mesh", closed=None):
        self.V = np.array(V, dtype=np.float64).reshape(3, -1)
        self.E = np.array(E, dtype=np.int64).reshape(3, -1)
        self.D = np.zeros(self.E.shape[1], dtype=np.int64) if D is None else np.array(D, dtype=np.int64).ravel()
        assert self.D.shape[0] == self.E.shape[1]
        self.name = name
        self._closed = closed

    @property
    def nv(self):
        return self.V.shape[1]

    @property
    def ne(self):
        return self.E.shape[1]

    def copy(self, name=None):
        return Mesh(self.V.copy(), self.E.copy(), self.D.copy(), name or self.name, self._closed)

    # -------- simple derived data (independent of bempp)
    def edge_counts(self):
        cnt = {}
        for e in range(self.ne):
            for a, b in ((0, 1), (1, 2), (2, 0)):
                k = tuple(sorted((int(self.E[a, e]), int(self.E[b, e]))))
                cnt[k] = cnt.get(k, 0) + 1
        return cnt

    def is_closed_manifold(self):
        return all(c == 2 for c in self.edge_counts().values())

    def is_consistently_oriented(self):
        seen = {}
        for e in range(self.ne):
            for a, b in ((0, 1), (1, 2), (2, 0)):
                k = (int(self.E[a, e]), int(self.E[b, e]))
                if k in seen:
                    return False
                seen[k] = e
        return True

    def areas(self):
        p0, p1, p2 = (self.V[:, self.E[i]] for i in range(3))
        return 0.5 * np.linalg.norm(np.cross((p1 - p0).T, (p2 - p0).T), axis=1)

    def normals(self):
        p0, p1, p2 = (self.V[:, self.E[i]] for i in range(3))
        n = np.cross((p1 - p0).T, (p2 - p0).T)
        return n / np.linalg.norm(n, axis=1)[:, None]

    def centroids(self):
        return (self.V[:, self.E[0]] + self.V[:, self.E[1]] + self.V[:, self.E[2]]).T / 3.0

    def diameter(self):
        return float(np.linalg.norm(self.V.max(axis=1) - self.V.min(axis=1)))

    def max_edge(self):
        p0, p1, p2 = (self.V[:, self.E[i]] for i in range(3))
        return float(max(np.linalg.norm(p1 - p0, axis=0).max(), np.linalg.norm(p2 - p1, axis=0).max(),
                         np.linalg.norm(p0 - p2, axis=0).max()))

    def min_angle_deg(self):
        p = [self.V[:, self.E[i]].T for i in range(3)]
        best = 180.0
        for i in range(3):
            a = p[(i + 1) % 3] - p[i]
            b = p[(i + 2) % 3] - p[i]
            c = np.sum(a * b, axis=1) / (np.linalg.norm(a, axis=1) * np.linalg.norm(b, axis=1))
            best = min(best, float(np.degrees(np.arccos(np.clip(c, -1, 1))).min()))
        return best

    def signed_volume(self):
        p0, p1, p2 = (self.V[:, self.E[i]].T for i in range(3))
        return float(np.sum(np.einsum("ij,ij->i", p0, np.cross(p1, p2))) / 6.0)

    def describe(self):
        return {"name": self.name, "nv": self.nv, "ne": self.ne, "domains": sorted(set(self.D.tolist()))[:8]}


def to_grid(mesh, dtype_v=None, dtype_e=None):
    from bempp_cl.api import Grid

    V = mesh.V if dtype_v is None else mesh.V.astype(dtype_v)
    E = mesh.E if dtype_e is None else mesh.E.astype(dtype_e)
    return Grid(V, E, mesh.D.astype("uint32"))


# ----------------------------------------------------------------------------- base solids

def tetrahedron():
    V = np.array([[1, 1, 1], [1, -1, -1], [-1, 1, -1], [-1, -1, 1]], float).T
    E = np.array([[0, 1, 2], [0, 3, 1], [0, 2, 3], [1, 3, 2]]).T
    m = Mesh(V, E, name="tetra", closed=True)
    return _orient_outward(m)


def octahedron():
    V = np.array([[1, 0, 0], [-1, 0, 0], [0, 1, 0], [0, -1, 0], [0, 0, 1], [0, 0, -1]], float).T
    E = np.array([[0, 2, 4], [2, 1, 4], [1, 3, 4], [3, 0, 4], [2, 0, 5], [1, 2, 5], [3, 1, 5], [0, 3, 5]]).T
    return Mesh(V, E, name="octa", closed=True)


def icosahedron():
    t = (1.0 + 5 ** 0.5) / 2
    V = np.array([[-1, t, 0], [1, t, 0], [-1, -t, 0], [1, -t, 0], [0, -1, t], [0, 1, t], [0, -1, -t], [0, 1, -t],
                  [t, 0, -1], [t, 0, 1], [-t, 0, -1], [-t, 0, 1]], float).T
    E = np.array([[0, 11, 5], [0, 5, 1], [0, 1, 7], [0, 7, 10], [0, 10, 11], [1, 5, 9], [5, 11, 4], [11, 10, 2],
                  [10, 7, 6], [7, 1, 8], [3, 9, 4], [3, 4, 2], [3, 2, 6], [3, 6, 8], [3, 8, 9], [4, 9, 5],
                  [2, 4, 11], [6, 2, 10], [8, 6, 7], [9, 8, 1]]).T
    return Mesh(V, E, name="icosa", closed=True)


def _orient_outward(m):
    if m.signed_volume() < 0:
        m.E = m.E[[0, 2, 1], :]
    return m


def voxel_surface(voxels, name="voxels", face_domains=False, split_seed=None):
    """Boundary surface of a union of unit cubes (integer positions), outward oriented.

    Each exposed face becomes two triangles. Faces shared by two voxels are dropped.
    With face_domains the domain index encodes the face direction (0..5)."""
    voxels = {tuple(int(c) for c in v) for v in voxels}
    vid = {}
    tris, doms = [], []
    rng = np.random.default_rng(split_seed) if split_seed is not None else None
    # for each axis direction: the four corners in counter-clockwise order seen from outside
    dirs = [((1, 0, 0), [(1, 0, 0), (1, 1, 0), (1, 1, 1), (1, 0, 1)]),
            ((-1, 0, 0), [(0, 0, 0), (0, 0, 1), (0, 1, 1), (0, 1, 0)]),
            ((0, 1, 0), [(0, 1, 0), (0, 1, 1), (1, 1, 1), (1, 1, 0)]),
            ((0, -1, 0), [(0, 0, 0), (1, 0, 0), (1, 0, 1), (0, 0, 1)]),
            ((0, 0, 1), [(0, 0, 1), (1, 0, 1), (1, 1, 1), (0, 1, 1)]),
            ((0, 0, -1), [(0, 0, 0), (0, 1, 0), (1, 1, 0), (1, 0, 0)])]
    for v in sorted(voxels):
        for di, (d, corners) in enumerate(dirs):
            nb = (v[0] + d[0], v[1] + d[1], v[2] + d[2])
            if nb in voxels:
                continue
            ids = []
            for c in corners:
                p = (v[0] + c[0], v[1] + c[1], v[2] + c[2])
                if p not in vid:
                    vid[p] = len(vid)
                ids.append(vid[p])
            alt = (rng.integers(2) == 1) if rng is not None else ((v[0] + v[1] + v[2] + di) % 2 == 1)
            if alt:
                tris += [[ids[0], ids[1], ids[3]], [ids[1], ids[2], ids[3]]]
            else:
                tris += [[ids[0], ids[1], ids[2]], [ids[0], ids[2], ids[3]]]
            doms += [di if face_domains else 0] * 2
    V = np.array(sorted(vid, key=vid.get), float).T
    return Mesh(V, np.array(tris).T, doms, name=name, closed=True)


def cube(face_domains=False):
    m = voxel_surface([(0, 0, 0)], name="cube", face_domains=face_domains)
    m.V = m.V - 0.5
    return m


def l_prism():
    return voxel_surface([(0, 0, 0), (1, 0, 0), (0, 1, 0)], name="lprism")


def dented_block():
    vox = [(i, j, k) for i in range(3) for j in range(3) for k in range(2)]
    vox.remove((1, 1, 1))
    return voxel_surface(vox, name="dented")


def voxel_ring():
    """Genus-1 surface: 3x3 ring of voxels with the centre removed."""
    vox = [(i, j, 0) for i in range(3) for j in range(3) if (i, j) != (1, 1)]
    return voxel_surface(vox, name="voxring")


def torus(n=6, m=4, R=1.0, r=0.4):
    V = []
    for i in range(n):
        for j in range(m):
            u, v = 2 * np.pi * i / n, 2 * np.pi * j / m
            V.append([(R + r * np.cos(v)) * np.cos(u), (R + r * np.cos(v)) * np.sin(u), r * np.sin(v)])
    E = []
    idx = lambda i, j: (i % n) * m + (j % m)  # noqa: E731
    for i in range(n):
        for j in range(m):
            a, b, c, d = idx(i, j), idx(i + 1, j), idx(i + 1, j + 1), idx(i, j + 1)
            E += [[a, b, c], [a, c, d]]
    mesh = Mesh(np.array(V).T, np.array(E).T, name="torus%dx%d" % (n, m), closed=True)
    return _orient_outward(mesh)


def screen(n=3, m=None, name=None):
    m = m or n
    V = np.array([[i / n, j / m, 0.0] for j in range(m + 1) for i in range(n + 1)]).T
    E = []
    idx = lambda i, j: j * (n + 1) + i  # noqa: E731
    for j in range(m):
        for i in range(n):
            a, b, c, d = idx(i, j), idx(i + 1, j), idx(i + 1, j + 1), idx(i, j + 1)
            if (i + j) % 2 == 0:
                E += [[a, b, c], [a, c, d]]
            else:
                E += [[a, b, d], [b, c, d]]
    return Mesh(V, np.array(E).T, name=name or "screen%dx%d" % (n, m), closed=False)


def screen_with_hole(n=4):
    s = screen(n)
    keep = []
    cen = s.centroids()
    for e in range(s.ne):
        if not (0.26 < cen[e, 0] < 0.74 and 0.26 < cen[e, 1] < 0.74):
            keep.append(e)
    return compress(Mesh(s.V, s.E[:, keep], s.D[keep], name="screenhole%d" % n, closed=False))


def cube_minus_face():
    m = cube(face_domains=True)
    keep = np.flatnonzero(m.D != 4)
    out = compress(Mesh(m.V, m.E[:, keep], np.zeros(len(keep)), name="openbox", closed=False))
    return out


def single_triangle():
    return Mesh(np.array([[0, 0, 0], [1, 0, 0], [0.2, 0.9, 0.1]], float).T, np.array([[0, 1, 2]]).T, name="tri1", closed=False)


def two_triangle_fan():
    V = np.array([[0, 0, 0], [1, 0, 0], [0.3, 0.8, 0], [-0.7, 0.6, 0.2]], float).T
    return Mesh(V, np.array([[0, 1, 2], [0, 2, 3]]).T, name="fan2", closed=False)


def bipyramid(n, closed=True):
    """Ring of n vertices with an apex above (and, if closed, below): apex valence n, 2n (n) triangles, outward oriented."""
    t = 2 * np.pi * np.arange(n) / n
    ring = np.stack([np.cos(t), np.sin(t), 0.05 * np.cos(3 * t)])
    V = np.hstack([ring, np.array([[0.0], [0.0], [0.9]])] + ([np.array([[0.0], [0.0], [-0.7]])] if closed else []))
    E = [[i, (i + 1) % n, n] for i in range(n)]
    if closed:
        E += [[(i + 1) % n, i, n + 1] for i in range(n)]
    return Mesh(V, np.array(E).T, name="bipyramid%d%s" % (n, "" if closed else "_open"), closed=closed)


def multitrace_cubes():
    """Two unit cubes sharing a face; the interface is kept once (non-manifold edges with 3 neighbours).

    domain 0: outer faces of cube A, 1: outer faces of cube B, 2: the interface."""
    a = voxel_surface([(0, 0, 0)], face_domains=True)
    b = voxel_surface([(1, 0, 0)], face_domains=True)
    # drop B's -x face (= A's +x face), merge vertices
    keep_b = np.flatnonzero(b.D != 1)
    Da = np.where(a.D == 0, 2, 0)
    Db = np.ones(len(keep_b), dtype=int)
    V = np.hstack([a.V, b.V])
    E = np.hstack([a.E, b.E[:, keep_b] + a.nv])
    m = merge_vertices(Mesh(V, E, np.concatenate([Da, Db]), name="multitrace", closed=False))
    return m


def merge_vertices(m):
    key = {}
    remap = np.zeros(m.nv, dtype=int)
    newV = []
    for i in range(m.nv):
        k = tuple(np.round(m.V[:, i], 9).tolist())
        if k not in key:
            key[k] = len(newV)
            newV.append(m.V[:, i])
        remap[i] = key[k]
    return Mesh(np.array(newV).T, remap[m.E], m.D, m.name, m._closed)


def compress(m):
    used = np.unique(m.E.ravel())
    remap = -np.ones(m.nv, dtype=int)
    remap[used] = np.arange(len(used))
    return Mesh(m.V[:, used], remap[m.E], m.D, m.name, m._closed)


def disjoint_union(meshes, name=None, domains=None):
    Vs, Es, Ds = [], [], []
    off = 0
    for i, m in enumerate(meshes):
        Vs.append(m.V)
        Es.append(m.E + off)
        Ds.append(m.D if domains is None else np.full(m.ne, domains[i]))
        off += m.nv
    closed = all(m._closed for m in meshes)
    return Mesh(np.hstack(Vs), np.hstack(Es), np.concatenate(Ds), name or "+".join(m.name for m in meshes), closed)


def two_solids():
    a = octahedron()
    b = cube()
    b.V = b.V * 0.8 + np.array([[3.0], [0.4], [0.2]])
    return disjoint_union([a, b], name="octa+cube", domains=[0, 1])


def nested_shell():
    """Material between an outer cube and an inner octahedron; inner normals point out of the material."""
    outer = cube()
    outer.V = outer.V * 4
    inner = flip_orientation(octahedron())
    inner.V = inner.V * 0.7
    m = disjoint_union([outer, inner], name="shell", domains=[0, 1])
    m._closed = True
    return m


# ----------------------------------------------------------------------------- refinement / distortion

def refine(m, k=1):
    """Uniform 1→4 refinement (own implementation)."""
    for _ in range(k):
        edge_mid = {}
        V = [m.V[:, i] for i in range(m.nv)]

        def mid(a, b):
            key = (min(a, b), max(a, b))
            if key not in edge_mid:
                edge_mid[key] = len(V)
                V.append(0.5 * (m.V[:, a] + m.V[:, b]))
            return edge_mid[key]

        E, D = [], []
        for e in range(m.ne):
            a, b, c = (int(x) for x in m.E[:, e])
            ab, bc, ca = mid(a, b), mid(b, c), mid(c, a)
            E += [[a, ab, ca], [ab, b, bc], [bc, c, ca], [ab, bc, ca]]
            D += [m.D[e]] * 4
        m = Mesh(np.array(V).T, np.array(E).T, D, m.name + "r", m._closed)
    return m


def project_to_ellipsoid(m, axes=(1.0, 1.0, 1.0)):
    out = m.copy(m.name + "_ell")
    c = out.V.mean(axis=1, keepdims=True)
    W = out.V - c
    W = W / np.linalg.norm(W, axis=0, keepdims=True)
    out.V = W * np.array(axes)[:, None]
    return out


def random_rotation(rng):
    q = rng.normal(size=4)
    q /= np.linalg.norm(q)
    a, b, c, d = q
    return np.array([[a * a + b * b - c * c - d * d, 2 * (b * c - a * d), 2 * (b * d + a * c)],
                     [2 * (b * c + a * d), a * a - b * b + c * c - d * d, 2 * (c * d - a * b)],
                     [2 * (b * d - a * c), 2 * (c * d + a * b), a * a - b * b - c * c + d * d]])


def distort(m, rng, jitter=0.1, affine=True, min_angle=15.0, tries=30, strength=0.35):
    """Seeded bounded-aspect-ratio distortion: random affine map + vertex jitter, min angle >= bound."""
    base_angle = m.min_angle_deg()
    bound = min(min_angle, 0.6 * base_angle)
    h = None
    for t in range(tries):
        out = m.copy(m.name + "~")
        if affine:
            A = np.eye(3) + (strength / (1 + t / 6.0)) * rng.uniform(-1, 1, size=(3, 3))
            if np.linalg.det(A) < 0.3:
                continue
            out.V = A @ out.V
        if jitter:
            p0, p1, p2 = (out.V[:, out.E[i]] for i in range(3))
            lens = np.concatenate([np.linalg.norm(p1 - p0, axis=0), np.linalg.norm(p2 - p1, axis=0), np.linalg.norm(p0 - p2, axis=0)])
            h = lens.min()
            out.V = out.V + (jitter / (1 + t / 6.0)) * h * rng.uniform(-1, 1, size=out.V.shape)
        if out.min_angle_deg() >= bound:
            R = random_rotation(rng)
            out.V = R @ out.V
            return out
    return m.copy(m.name + "~0")


# ----------------------------------------------------------------------------- group actions

def rigid(m, R, t):
    out = m.copy(m.name + "|rigid")
    out.V = R @ m.V + np.asarray(t, float).reshape(3, 1)
    return out


def scale(m, s):
    out = m.copy(m.name + "|s")
    out.V = m.V * s
    return out


def permute_vertices(m, perm):
    """perm[i] = new index of old vertex i."""
    perm = np.asarray(perm)
    out = m.copy(m.name + "|pv")
    V = np.empty_like(m.V)
    V[:, perm] = m.V
    out.V = V
    out.E = perm[m.E]
    return out


def permute_elements(m, order):
    """order[j] = old index of new element j."""
    order = np.asarray(order)
    out = m.copy(m.name + "|pe")
    out.E = m.E[:, order]
    out.D = m.D[order]
    return out


def rotate_local(m, shifts):
    """Cyclically rotate the local vertex order: new local i = old local (i + shift) % 3."""
    shifts = np.asarray(shifts) % 3
    out = m.copy(m.name + "|rot")
    idx = (np.arange(3)[:, None] + shifts[None, :]) % 3
    out.E = np.take_along_axis(m.E, idx, axis=0)
    return out


def flip_orientation(m, mask=None):
    out = m.copy(m.name + "|flip")
    if mask is None:
        mask = np.ones(m.ne, dtype=bool)
    E = m.E.copy()
    E[:, mask] = m.E[[0, 2, 1]][:, mask]
    out.E = E
    return out


def sub_mesh(m, elems, name=None):
    elems = np.asarray(elems, dtype=int)
    return compress(Mesh(m.V, m.E[:, elems], m.D[elems], name or m.name + "|sub", False))


def assign_domains(m, rng, ndom=3, values=None):
    """Domain indices by spatial slabs along a random direction (contiguous patches, arbitrary labels)."""
    out = m.copy(m.name + "|dom%d" % ndom)
    d = rng.normal(size=3)
    s = m.centroids() @ d
    qs = np.quantile(s, np.linspace(0, 1, ndom + 1)[1:-1])
    lab = np.searchsorted(qs, s)
    if values is None:
        values = np.arange(ndom)
    out.D = np.asarray(values)[lab]
    return out


# ----------------------------------------------------------------------------- pools

def closed_pool(level="quick"):
    pool = [tetrahedron(), octahedron(), cube(), l_prism(), torus(5, 3), two_solids()]
    if level != "quick":
        pool += [icosahedron(), dented_block(), voxel_ring(), nested_shell(), torus(7, 4), refine(octahedron(), 1),
                 project_to_ellipsoid(refine(icosahedron(), 1), (1.0, 0.8, 0.6))]
    return pool


def open_pool(level="quick"):
    pool = [screen(2), screen(3, 2), cube_minus_face(), two_triangle_fan()]
    if level != "quick":
        pool += [screen_with_hole(4), single_triangle(), screen(4, 3)]
    return pool


def all_subcomplexes(m, min_elems=1):
    for r in range(min_elems, m.ne + 1):
        for comb in itertools.combinations(range(m.ne), r):
            yield comb
