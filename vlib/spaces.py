"""Space monitors: invariant walker for FunctionSpace objects (C09), colouring walker (C16),
independent function evaluation, brute-force DOF models, workload generator.

Nothing here uses bempp_cl's own DOF-map code as an oracle: entity sets are recomputed by brute force
from the vertex / element arrays.
"""

import numpy as np

from vlib import refmodel as R
from vlib.monitors import EDGE_LOCAL
from vlib.verdict import Rejected

KINDS = [("DP", 0), ("DP", 1), ("P", 1), ("RWG", 0), ("SNC", 0), ("DUAL", 0), ("DUAL", 1), ("BC", 0), ("RBC", 0)]
PRIMAL = [("DP", 0), ("DP", 1), ("P", 1), ("RWG", 0), ("SNC", 0)]

# deliberate, documented refusals of the library (logged as rejected_by_library, never violations)
ALLOWED_REJECTIONS = (
    "Boundary dofs inclusion is not implemented for BC yet",
    "Boundary dofs inclusion is not implemented for RBC yet",
    "Two elements seem to be connected only by a vertex, not by an edge.",
    "Spaces that require dof transformations not supported for dense assembly.",
)


def make_space(api, grid, kind, degree, **opts):
    opts = {k: v for k, v in opts.items() if v is not None}
    try:
        return api.function_space(grid, kind, degree, **opts)
    except Exception as e:  # noqa: BLE001
        msg = str(e)
        if any(a in msg for a in ALLOWED_REJECTIONS):
            raise Rejected(msg)
        raise


def opts_key(opts):
    return {k: (sorted(int(x) for x in v) if isinstance(v, (list, tuple, set, np.ndarray)) else v) for k, v in sorted(opts.items()) if v is not None}


# ----------------------------------------------------------------------------- brute-force entity model


class Topo:
    """Brute-force topology of (V, E)."""

    def __init__(self, V, E):
        self.V = np.asarray(V, float)
        self.E = np.asarray(E).astype(np.int64)
        self.ne = self.E.shape[1]
        self.nv = self.V.shape[1]
        self.edge_elems = R.brute_edges(self.E)  # (a,b)-> [elements]
        self.vertex_elems = [[] for _ in range(self.nv)]
        for e in range(self.ne):
            for l in range(3):
                self.vertex_elems[int(self.E[l, e])].append(e)
        self.boundary_vertex = np.zeros(self.nv, dtype=bool)
        for k, els in self.edge_elems.items():
            if len(els) == 1:
                self.boundary_vertex[list(k)] = True

    def edge_key(self, e, li):
        a, b = EDGE_LOCAL[li]
        va, vb = int(self.E[a, e]), int(self.E[b, e])
        return (min(va, vb), max(va, vb))


def requested_support(topo, D, opts):
    sup = np.zeros(topo.ne, dtype=bool)
    if opts.get("support_elements") is not None:
        sup[np.asarray(opts["support_elements"], dtype=int)] = True
    elif opts.get("segments") is not None:
        sup[np.isin(np.asarray(D), list(opts["segments"]))] = True
    else:
        sup[:] = True
    return sup


def expected_entities(topo, D, kind, degree, opts):
    """Brute-force set of entities carrying a DOF. Returns (entity_type, set_of_entities) or None if the model
    does not cover the configuration (non-manifold support for edge spaces)."""
    sup = requested_support(topo, D, opts)
    inc = opts.get("include_boundary_dofs")
    if kind == "DP" and degree == 0:
        return "element", {int(e) for e in np.flatnonzero(sup)}
    if kind == "DP" and degree == 1:
        return "element_vertex", {(int(e), l) for e in np.flatnonzero(sup) for l in range(3)}
    if (kind, degree) in (("P", 1), ("DUAL", 0)):
        inc = bool(inc) if inc is not None else False
        verts = set()
        for e in np.flatnonzero(sup):
            for l in range(3):
                v = int(topo.E[l, e])
                interior = all(sup[n] for n in topo.vertex_elems[v]) and not topo.boundary_vertex[v]
                if inc or interior:
                    verts.add(v)
        return "vertex", verts
    if (kind, degree) in (("RWG", 0), ("SNC", 0), ("BC", 0), ("RBC", 0)):
        inc = bool(inc) if inc is not None else False
        trunc = opts.get("truncate_at_segment_edge", True)
        edges = set()
        for k, els in topo.edge_elems.items():
            ns = sum(1 for e in els if sup[e])
            if ns > 2:
                return None
            if ns >= 1 and len(els) > 2 and inc and not trunc:
                return None  # extension across a non-manifold edge is ambiguous: outside the model
            if ns == 2 or (ns == 1 and inc):
                edges.add(k)
        return "edge", edges
    if (kind, degree) == ("DUAL", 1):
        return "element", {int(e) for e in np.flatnonzero(sup)}
    return None


# ----------------------------------------------------------------------------- function evaluation


def eval_function(space, coeffs, element, local_pts):
    """Value of Σ_j c_j φ_j on `element` of the space's own grid at local points: (codim, npts)."""
    gc = space.dof_transformation @ np.asarray(coeffs)
    vals = space.evaluate(int(element), np.asarray(local_pts, dtype=np.float64))
    g = np.asarray(space.local2global)[int(element)].astype(np.int64)
    return np.tensordot(vals, gc[g], axes=([1], [0]))


def local_coords_of_vertex(l):
    return np.array([[0.0, 0.0], [1.0, 0.0], [0.0, 1.0]])[l]


def edge_points_local(la, lb, ts):
    """Local coordinates of points (1-t)*vertex_la + t*vertex_lb."""
    A, B = local_coords_of_vertex(la), local_coords_of_vertex(lb)
    return np.array([(1 - t) * A + t * B for t in ts]).T


# ----------------------------------------------------------------------------- generic walker


def space_problems(space, meta=None, rng=None, deep=True):
    """Invariants of one FunctionSpace. meta = dict(kind, degree, opts, D (domain indices), coarse_grid).

    Returns list of (mechanism, message)."""
    P = []
    add = lambda m, s: P.append((m, s))  # noqa: E731
    rng = rng or np.random.default_rng(0)
    grid = space.grid
    E = np.asarray(grid.elements).astype(np.int64)
    ne = E.shape[1]
    l2g = np.asarray(space.local2global).astype(np.int64)
    mult = np.asarray(space.local_multipliers)
    sup = np.asarray(space.support).astype(bool)
    nshape = space.number_of_shape_functions

    if l2g.shape != (ne, nshape) or mult.shape != (ne, nshape) or sup.shape != (ne,):
        add("space:array_shapes", "local2global %s multipliers %s support %s for %d elements x %d shape functions"
            % (l2g.shape, mult.shape, sup.shape, ne, nshape))
        return P
    gdc = space.grid_dof_count
    if l2g.size and (l2g.min() < 0 or l2g.max() >= gdc):
        add("space:local2global_range", "local2global values outside [0, grid_dof_count)")
    if gdc != 1 + l2g.max():
        add("space:grid_dof_count", "grid_dof_count %d vs 1+max(local2global)=%d" % (gdc, 1 + l2g.max()))
    T = space.dof_transformation
    if T.shape != (gdc, space.global_dof_count):
        add("space:dof_transformation_shape", "%s vs (%d, %d)" % (T.shape, gdc, space.global_dof_count))

    # (6) support = union of elements with a non-zero multiplier
    nz = np.any(mult != 0, axis=1)
    if not np.array_equal(nz, sup):
        add("space:support_vs_multipliers", "support differs from 'some multiplier non-zero' on %d elements" % int(np.sum(nz != sup)))
    if not np.array_equal(np.asarray(space.support_elements).astype(np.int64), np.flatnonzero(sup)):
        add("space:support_elements", "support_elements != flatnonzero(support)")
    if space.number_of_support_elements != int(sup.sum()):
        add("space:number_of_support_elements", "")

    # (1) global2local <-> local2global mutually inverse on non-zero multipliers
    g2l = space.global2local
    if len(g2l) != gdc:
        add("space:global2local_len", "%d entries for %d grid dofs" % (len(g2l), gdc))
    else:
        seen = set()
        bad = False
        for d, lst in enumerate(g2l):
            for (e, li) in lst:
                e, li = int(e), int(li)
                if not (0 <= e < ne and 0 <= li < nshape) or l2g[e, li] != d or mult[e, li] == 0:
                    add("space:global2local_not_inverse", "global dof %d lists (%d,%d) but local2global/multiplier disagree" % (d, e, li))
                    bad = True
                    break
                if (e, li) in seen:
                    add("space:global2local_duplicate", "(%d,%d) listed twice" % (e, li))
                    bad = True
                seen.add((e, li))
            if bad:
                break
        if not bad:
            want = {(int(e), int(li)) for e, li in zip(*np.nonzero(mult != 0))}
            if want != seen:
                add("space:global2local_incomplete", "%d local dofs with non-zero multiplier are missing from global2local" % len(want - seen))
        # every grid dof is used
        if not bad and any(len(lst) == 0 for lst in g2l):
            add("space:unused_global_dof", "a global dof has no local dof with non-zero multiplier")

    # normal multipliers
    nm = np.asarray(space.normal_multipliers)
    if nm.shape != (ne,) or not np.all(np.isin(nm, (-1, 1))):
        add("space:normal_multipliers_values", "normal multipliers must be +-1 per element")

    # maps to localised / full grid
    try:
        mf = space.map_to_full_grid
        ml = space.map_to_localised_space
        if mf.shape != (nshape * ne, gdc):
            add("space:map_to_full_grid_shape", str(mf.shape))
        if ml.shape != (nshape * int(sup.sum()), gdc):
            add("space:map_to_localised_space_shape", str(ml.shape))
        # row (e, l) of map_to_full_grid has mult[e,l] in column l2g[e,l]
        dense = mf.toarray() if ne * nshape * gdc <= 4_000_000 else None
        if dense is not None:
            want = np.zeros_like(dense)
            for e in np.flatnonzero(sup):
                for l in range(nshape):
                    want[nshape * e + l, l2g[e, l]] += mult[e, l]
            if not np.array_equal(dense, want):
                add("space:map_to_full_grid_content", "map_to_full_grid differs from the multiplier/local2global definition")
            dl = ml.toarray()
            wantl = want.reshape(ne, nshape, gdc)[sup].reshape(-1, gdc)
            if not np.array_equal(dl, wantl):
                add("space:map_to_localised_space_content", "map_to_localised_space differs from the definition")
    except Exception as e:  # noqa: BLE001
        add("space:maps_exception", repr(e))

    # localised space coherent
    ls = space.localised_space
    if ls is not space:
        ll = np.asarray(ls.local2global).astype(np.int64)
        lm = np.asarray(ls.local_multipliers)
        if not np.array_equal(np.asarray(ls.support).astype(bool), sup):
            add("space:localised_support", "localised space has a different support")
        else:
            want = np.arange(nshape * int(sup.sum())).reshape(-1, nshape)
            if not np.array_equal(ll[sup], want) or not np.all(lm[sup] == 1) or not np.all(lm[~sup] == 0):
                add("space:localised_numbering", "localised space is not the element-wise numbering of the support")
        if not np.array_equal(np.asarray(ls.normal_multipliers), nm):
            add("space:localised_normal_multipliers", "")

    if meta is not None:
        P += _kind_specific(space, meta, rng, deep)
    return P


def _kind_specific(space, meta, rng, deep):
    P = []
    add = lambda m, s: P.append((m, s))  # noqa: E731
    kind, degree, opts = meta["kind"], meta["degree"], meta["opts"]
    cgrid = meta["coarse_grid"]
    topo = meta.get("topo") or Topo(cgrid.vertices, cgrid.elements)
    D = np.asarray(cgrid.domain_indices).astype(np.int64)
    tag = "%s%d" % (kind, degree)

    # normal multipliers = -1 exactly on swapped domains
    sw = opts.get("swapped_normals") or []
    nm = np.asarray(space.normal_multipliers)
    rep = 6 if space.is_barycentric and space.grid is not cgrid else 1
    want_nm = np.where(np.isin(D, list(sw)), -1, 1)
    # (scalar dual spaces do not carry normal information in their basis: not demanded there)
    if kind != "DUAL" and not np.array_equal(nm, np.repeat(want_nm, rep)):
        add("space:normal_multipliers_swapped", "%s: normal multipliers are not -1 exactly on swapped domains %s" % (tag, list(sw)))

    exp = expected_entities(topo, D, kind, degree, opts)
    if exp is None:
        return P
    etype, ents = exp
    # (3) dof count
    if space.global_dof_count != len(ents):
        add("space:dof_count:" + tag, "global_dof_count %d vs %d %s entities selected by %s" % (space.global_dof_count, len(ents), etype, opts_key(opts)))
        return P

    E = topo.E
    l2g = np.asarray(space.local2global).astype(np.int64)
    mult = np.asarray(space.local_multipliers)
    g2l = space.global2local
    # (2) entity attachment for primal spaces
    if (kind, degree) == ("P", 1):
        got = set()
        for d, lst in enumerate(g2l):
            vs = {int(E[li, e]) for (e, li) in lst}
            if len(vs) != 1:
                add("space:dof_entity:P1", "global dof %d touches vertices %s" % (d, sorted(vs)))
                break
            got |= vs
        else:
            if got != ents:
                add("space:dof_entity_set:P1", "vertices carrying a dof differ from the brute-force selection (missing %s extra %s)"
                    % (sorted(ents - got)[:5], sorted(got - ents)[:5]))
        # all local dofs at that vertex within the support are attached
        trunc = opts.get("truncate_at_segment_edge", True)
        inc = bool(opts.get("include_boundary_dofs", False))
        req = requested_support(topo, D, opts)
        for d, lst in enumerate(g2l):
            if not lst:
                continue
            v = int(E[lst[0][1], lst[0][0]])
            els = {int(e) for (e, _) in lst}
            want = {n for n in topo.vertex_elems[v] if req[n]}
            if inc and not trunc:
                want = set(topo.vertex_elems[v])
            if els != want:
                add("space:dof_elements:P1", "dof at vertex %d lives on elements %s, expected %s (opts %s)" % (v, sorted(els), sorted(want), opts_key(opts)))
                break
    elif (kind, degree) in (("RWG", 0), ("SNC", 0)):
        got = set()
        for d, lst in enumerate(g2l):
            ks = {topo.edge_key(int(e), int(li)) for (e, li) in lst}
            if len(ks) != 1:
                add("space:dof_entity:" + tag, "global dof %d touches edges %s" % (d, sorted(ks)))
                break
            got |= ks
            if len(lst) == 2:
                s = sorted(mult[e, li] for (e, li) in lst)
                if s != [-1.0, 1.0]:
                    add("space:edge_signs:" + tag, "global dof %d has multipliers %s (expected one +1 and one -1)" % (d, s))
                    break
            elif len(lst) == 1:
                if mult[lst[0][0], lst[0][1]] != 1.0:
                    add("space:edge_signs:" + tag, "half function dof %d has multiplier %s" % (d, mult[lst[0][0], lst[0][1]]))
                    break
            else:
                add("space:dof_entity:" + tag, "global dof %d has %d local dofs" % (d, len(lst)))
                break
        else:
            if got != ents:
                add("space:dof_entity_set:" + tag, "edges carrying a dof differ from the brute-force selection (missing %s extra %s)"
                    % (sorted(ents - got)[:5], sorted(got - ents)[:5]))
    elif kind == "DP":
        req = requested_support(topo, D, opts)
        if not np.array_equal(np.asarray(space.support).astype(bool), req):
            add("space:support:" + tag, "support differs from the requested elements")
        for d, lst in enumerate(g2l):
            if len(lst) != 1:
                add("space:dof_entity:" + tag, "global dof %d has %d local dofs" % (d, len(lst)))
                break

    if (kind, degree) == ("DUAL", 1) and space.grid is not cgrid:
        # DOF <-> entity: the i-th function belongs to the i-th requested element (numbering of the coarse DP0 space) and takes
        # the value 1 at the barycentre of that element, 0 at the barycentres of all other elements (decided on the
        # barycentric grid: barycentric element 6e+0 has the barycentre of coarse element e as one of its corners)
        req = requested_support(topo, D, opts)
        elems = np.flatnonzero(req)
        if len(elems) == space.global_dof_count:
            bg = space.grid
            BV, BE = np.asarray(bg.vertices), np.asarray(bg.elements).astype(np.int64)
            CV, CE = np.asarray(cgrid.vertices), np.asarray(cgrid.elements).astype(np.int64)
            Tm = space.dof_transformation.toarray()
            bl2g = np.asarray(space.local2global).astype(int)
            bsup = np.asarray(space.support).astype(bool)
            corners = np.array([[0.0, 1.0, 0.0], [0.0, 0.0, 1.0]])
            scale_ = float(np.linalg.norm(CV[:, CE[1]] - CV[:, CE[0]], axis=0).max())
            for i, e in enumerate(elems):
                be = 6 * int(e)
                cen = CV[:, CE[:, e]].mean(axis=1)
                dist = np.linalg.norm(BV[:, BE[:, be]] - cen[:, None], axis=0)
                corner = int(np.argmin(dist))
                if dist[corner] > 1e-9 * scale_ or not bsup[be]:
                    add("space:dof_entity:" + tag, "barycentric element %d is not attached to the barycentre of coarse element %d (or not in the support)" % (be, e))
                    break
                row = space.evaluate(be, corners)[0][:, corner] @ Tm[bl2g[be]]
                want_row = np.zeros(space.global_dof_count)
                want_row[i] = 1.0
                if np.abs(row - want_row).max() > 1e-12:
                    add("space:dof_entity:" + tag, "at the barycentre of element %d (the %d-th selected element) the basis takes the values %s instead of the unit vector e_%d (opts %s)"
                        % (e, i, np.round(row, 3).tolist()[:12], i, opts_key(opts)))
                    break
    if deep:
        P += _conformity(space, meta, topo, D, rng)
    return P


def _conformity(space, meta, topo, D, rng):
    """(4) continuity across interior edges, (5) partition of unity."""
    P = []
    add = lambda m, s: P.append((m, s))  # noqa: E731
    kind, degree, opts = meta["kind"], meta["degree"], meta["opts"]
    tag = "%s%d" % (kind, degree)
    grid = space.grid  # may be the barycentric grid
    V = np.asarray(grid.vertices)
    E = np.asarray(grid.elements).astype(np.int64)
    sup = np.asarray(space.support).astype(bool)
    n = space.global_dof_count
    if n == 0:
        return P
    c = rng.normal(size=n)
    ts = np.array([0.13, 0.5, 0.81])
    inc_edges = R.brute_edges(E)
    scalar_cont = (kind, degree) == ("P", 1)
    normal_cont = kind in ("RWG", "BC")
    tang_cont = kind in ("SNC", "RBC")
    trunc = opts.get("truncate_at_segment_edge", True)
    checked = skipped = 0
    worst = 0.0
    if scalar_cont or normal_cont or tang_cont:
        nm = np.asarray(space.normal_multipliers)
        scale = max(1e-300, float(np.abs(c).max()))
        for (a, b), els in inc_edges.items():
            els = [e for e in els if sup[e]]
            if len(els) != 2:
                continue
            e1, e2 = els
            vals, conormals, effn = [], [], []
            tvec = V[:, b] - V[:, a]
            tvec = tvec / np.linalg.norm(tvec)
            for e in (e1, e2):
                la = int(np.flatnonzero(E[:, e] == a)[0])
                lb = int(np.flatnonzero(E[:, e] == b)[0])
                lc = 3 - la - lb
                pts = edge_points_local(la, lb, ts)
                vals.append(eval_function(space, c, e, pts))
                third = V[:, E[lc, e]]
                w = third - V[:, a]
                w = w - (w @ tvec) * tvec
                conormals.append(-w / np.linalg.norm(w))  # outward co-normal
                nn = np.cross(V[:, E[1, e]] - V[:, E[0, e]], V[:, E[2, e]] - V[:, E[0, e]])
                effn.append(nm[e] * nn / np.linalg.norm(nn))
            fscale = max(scale * _basis_scale(kind, V, E, (e1, e2)), 1e-300)
            if scalar_cont:
                # edges on the boundary of the support have one supported element and are not visited:
                # with truncate_at_segment_edge the documented jump there is never demanded to vanish
                dev = np.abs(vals[0] - vals[1]).max() / fscale
            elif normal_cont:
                f1 = conormals[0] @ vals[0]
                f2 = conormals[1] @ vals[1]
                dev = np.abs(f1 + f2).max() / fscale
            else:
                # tangential continuity presumes a consistent effective orientation across the edge
                # consistent <=> t x n1 = outward conormal of 1 and t x n2 = inward conormal of 2 (or both reversed)
                s1 = np.sign(np.cross(tvec, effn[0]) @ conormals[0])
                s2 = np.sign(np.cross(tvec, effn[1]) @ conormals[1])
                if s1 == s2:
                    skipped += 1
                    continue
                dev = np.abs(tvec @ vals[0] - tvec @ vals[1]).max() / fscale
            worst = max(worst, float(dev))
            checked += 1
            if dev > 1e-11:
                what = "value" if scalar_cont else ("normal component" if normal_cont else "tangential component")
                add("space:continuity:" + tag, "%s jumps by %.3e (relative) across edge (%d,%d) between elements %d,%d; opts %s"
                    % (what, dev, a, b, e1, e2, opts_key(opts)))
                break
    meta["_continuity"] = {"edges_checked": checked, "edges_skipped": skipped, "worst": worst}

    # (5) partition of unity
    if (kind, degree) in (("DP", 0), ("P", 1), ("DUAL", 0), ("DUAL", 1), ("DP", 1)):
        if _pou_applies(meta, topo, D):
            ones = np.ones(n)
            req = requested_support(topo, D, opts)
            rep = 6 if (space.is_barycentric and grid is not meta["coarse_grid"]) else 1
            req_here = np.repeat(req, rep)
            pts = np.array([[0.2, 0.6, 0.1, 1 / 3, 0.0, 1.0, 0.0, 0.5], [0.3, 0.1, 0.7, 1 / 3, 0.0, 0.0, 1.0, 0.5]])
            worstp = 0.0
            for e in np.flatnonzero(sup & req_here):
                v = eval_function(space, ones, e, pts)
                dev = np.abs(v - 1.0).max()
                worstp = max(worstp, float(dev))
                if dev > 1e-12:
                    add("space:partition_of_unity:" + tag, "basis sums to %s on element %d (opts %s)" % (np.round(v.ravel(), 6).tolist(), e, opts_key(opts)))
                    break
            meta["_pou"] = {"elements": int((sup & req_here).sum()), "worst": worstp}
    return P


def _basis_scale(kind, V, E, els):
    if kind in ("RWG", "SNC", "BC", "RBC"):
        # RWG functions scale like 1/h
        h = min(np.linalg.norm(V[:, E[1, e]] - V[:, E[0, e]]) for e in els)
        return 4.0 / h
    return 1.0


def _pou_applies(meta, topo, D):
    """Partition of unity is claimed on a whole closed grid, or wherever boundary dofs are included."""
    kind, degree, opts = meta["kind"], meta["degree"], meta["opts"]
    whole = opts.get("segments") is None and opts.get("support_elements") is None
    closed = all(len(els) == 2 for els in topo.edge_elems.values())
    if kind == "DP":
        return True
    if (kind, degree) == ("DUAL", 1):
        return whole and closed
    inc = bool(opts.get("include_boundary_dofs", False))
    if whole and closed:
        return True
    return inc


# ----------------------------------------------------------------------------- colouring walker (C16)


def color_problems(space):
    """Element colouring: partition of the support, colours contiguous from 0, and no two elements of one colour
    share a local2global value (zero-multiplier artificial dofs included: the kernels execute += on them too)."""
    P = []
    add = lambda m, s: P.append((m, s))  # noqa: E731
    cm = np.asarray(space.color_map)
    sup = np.asarray(space.support).astype(bool)
    l2g = np.asarray(space.local2global).astype(np.int64)
    ne = len(sup)
    if cm.shape != (ne,):
        add("color:shape", str(cm.shape))
        return P
    if np.any(cm[sup] < 0):
        add("color:support_element_uncoloured", "%d support elements have no colour" % int(np.sum(cm[sup] < 0)))
    if np.any(cm[~sup] >= 0):
        add("color:non_support_coloured", "")
    used = np.unique(cm[sup])
    if len(used) and not np.array_equal(used, np.arange(used.max() + 1)):
        add("color:not_contiguous", "colours used: %s" % used.tolist())
    idx, ptr = space.get_elements_by_color()
    idx = np.asarray(idx).astype(np.int64)
    ptr = np.asarray(ptr).astype(np.int64)
    if sorted(idx.tolist()) != np.flatnonzero(sup).tolist():
        add("color:elements_by_color_not_partition", "sorted elements are not a permutation of the support")
    if ptr[0] != 0 or ptr[-1] != len(idx) or np.any(np.diff(ptr) < 0):
        add("color:indexptr", str(ptr.tolist()))
    for col in range(len(ptr) - 1):
        els = idx[ptr[col]:ptr[col + 1]]
        if len(els) == 0:
            add("color:empty_colour", "colour %d has no element" % col)
            continue
        if np.any(cm[els] != col):
            add("color:elements_by_color_mismatch", "colour %d" % col)
        dofs = l2g[els].ravel()
        # within one element the same dof may repeat (artificial dofs) - the conflict is between elements
        owner = {}
        for e in els:
            for d in set(l2g[e].tolist()):
                if d in owner:
                    add("color:shared_dof_same_colour", "elements %d and %d both have colour %d and share global dof %d" % (owner[d], e, col, d))
                    return P
                owner[d] = int(e)
    return P


# ----------------------------------------------------------------------------- workload


def random_opts(rng, mesh, kind, degree, variant):
    """Draw space options for a mesh. variant cycles through the interesting classes."""
    opts = {}
    doms = sorted(set(mesh.D.tolist()))
    v = variant % 8
    if v in (1, 2, 3, 4) and len(doms) >= 2:
        k = int(rng.integers(1, len(doms)))
        opts["segments"] = [int(x) for x in rng.choice(doms, size=k, replace=False)]
    elif v in (5, 6):
        k = int(rng.integers(1, max(2, mesh.ne)))
        opts["support_elements"] = np.sort(rng.choice(mesh.ne, size=min(k, mesh.ne), replace=False)).astype("uint32")
    if kind in ("P", "RWG", "SNC", "DUAL", "BC", "RBC") and not (kind == "DUAL" and degree == 1):
        combo = (variant // 2) % 4
        if variant % 8 != 0 or combo:
            opts["include_boundary_dofs"] = bool(combo & 1)
            opts["truncate_at_segment_edge"] = bool(combo & 2)
    if kind == "DUAL" and degree == 1 and v in (2, 4, 6):
        opts["truncate_at_segment_edge"] = bool(rng.integers(2))
    if v in (3, 7) and len(doms) >= 1:
        opts["swapped_normals"] = [int(x) for x in rng.choice(doms, size=max(1, len(doms) // 2), replace=False)]
    return opts


def draw_opts(rng, mesh, topo, kind, degree, variant, tries=8):
    """random_opts, redrawn (next variants) until the selection carries at least one DOF and is inside the model.
    Returns (opts, tries_used) or (None, tries) if none was found."""
    for t in range(tries):
        opts = random_opts(rng, mesh, kind, degree, variant + 3 * t)
        exp = expected_entities(topo, mesh.D, kind, degree, opts)
        if exp is not None and len(exp[1]) > 0:
            return opts, t
    return None, tries
