"""Operator factory over the public API (boundary, potential, far field) + small helpers."""

import numpy as np


def params(api, regular=None, singular=None):
    p = api.DefaultParameters()
    if regular is not None:
        p.quadrature.regular = int(regular)
    if singular is not None:
        p.quadrature.singular = int(singular)
    return p


SCALAR_OPS = ("single_layer", "double_layer", "adjoint_double_layer", "hypersingular")


def boundary(api, family, op, domain, range_, dual, k=None, parameters=None, assembler="default_nonlocal", precision=None):
    """family in laplace/helmholtz/modified_helmholtz/maxwell/sparse."""
    B = api.operators.boundary
    if isinstance(assembler, str) and "/" in assembler:   # "dense/single": assembler and precision in one configuration string
        assembler, precision = assembler.split("/", 1)
    kw = dict(parameters=parameters, assembler=assembler)
    if precision is not None:
        kw["precision"] = precision
    if family == "laplace":
        return getattr(B.laplace, op)(domain, range_, dual, **kw)
    if family == "helmholtz":
        return getattr(B.helmholtz, op)(domain, range_, dual, k, **kw)
    if family == "modified_helmholtz":
        return getattr(B.modified_helmholtz, op)(domain, range_, dual, k, **kw)
    if family == "maxwell":
        return getattr(B.maxwell, op)(domain, range_, dual, k, **kw)
    if family == "sparse":
        kw.pop("assembler")
        return getattr(B.sparse, op)(domain, range_, dual, parameters=parameters)
    raise ValueError(family)


def potential(api, family, op, space, points, k=None, parameters=None, assembler="dense", precision=None):
    Pm = api.operators.potential
    kw = dict(parameters=parameters, assembler=assembler)
    if precision is not None:
        kw["precision"] = precision
    if family == "laplace":
        return getattr(Pm.laplace, op)(space, points, **kw)
    if family == "helmholtz":
        return getattr(Pm.helmholtz, op)(space, points, k, **kw)
    if family == "modified_helmholtz":
        return getattr(Pm.modified_helmholtz, op)(space, points, k, **kw)
    if family == "maxwell":
        return getattr(Pm.maxwell, op)(space, points, k, **kw)
    raise ValueError(family)


def far_field(api, family, op, space, points, k, parameters=None):
    F = api.operators.far_field
    if family == "helmholtz":
        return getattr(F.helmholtz, op)(space, points, k, parameters=parameters)
    if family == "maxwell":
        return getattr(F.maxwell, op)(space, points, k, parameters=parameters)
    raise ValueError(family)


def dense(op):
    """Dense matrix of a boundary operator (weak form)."""
    w = op.weak_form()
    if hasattr(w, "to_dense"):
        return np.asarray(w.to_dense())
    A = getattr(w, "A", None)
    if A is not None:
        return np.asarray(A.todense()) if hasattr(A, "todense") else np.asarray(A)
    from bempp_cl.api import as_matrix

    m = as_matrix(w)
    return np.asarray(m.todense()) if hasattr(m, "todense") else np.asarray(m)


def frob(x):
    return float(np.linalg.norm(np.asarray(x).ravel()))


def rel(a, b):
    """‖a-b‖ / max(‖a‖,‖b‖) (0 if both vanish)."""
    d = frob(np.asarray(a) - np.asarray(b))
    s = max(frob(a), frob(b))
    return d / s if s > 0 else d


# ----------------------------------------------------------------------------- affine traces (C01, C02)


def affine_traces(p1, dp0, a, b):
    """Coefficients of the traces of u(x) = a.x + b: vertex values in the continuous P1 space and the values of
    a.n in the piecewise-constant space, filled through local2global (independent of the DOF numbering)."""
    grid = p1.grid
    V = np.asarray(grid.vertices)
    E = np.asarray(grid.elements).astype(np.int64)
    g = np.zeros(p1.global_dof_count)
    l2g = np.asarray(p1.local2global).astype(np.int64)
    mult = np.asarray(p1.local_multipliers)
    for e in np.flatnonzero(np.asarray(p1.support)):
        for l in range(3):
            if mult[e, l] != 0:
                g[l2g[e, l]] = a @ V[:, E[l, e]] + b
    psi = np.zeros(dp0.global_dof_count)
    l2g0 = np.asarray(dp0.local2global).astype(np.int64)
    p0, p1v, p2 = V[:, E[0]].T, V[:, E[1]].T, V[:, E[2]].T
    n = np.cross(p1v - p0, p2 - p0)
    n = n / np.linalg.norm(n, axis=1)[:, None]
    nm = np.asarray(dp0.normal_multipliers)
    for e in np.flatnonzero(np.asarray(dp0.support)):
        psi[l2g0[e, 0]] = nm[e] * (a @ n[e])
    return g, psi
