from ._core import init_sources, init_targets, setup, update_charges, clear_values, evaluate, Fmm  # noqa: F401


def HelmholtzFmm(expansion_order, ncrit, *args, filename=None, **kwargs):
    wavenumber = args[0] if args else kwargs.get("wavenumber")
    return Fmm("helmholtz", expansion_order, ncrit, wavenumber, filename)
