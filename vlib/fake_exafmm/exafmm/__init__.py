"""Exact-summation stand-in for the `exafmm` package (verification harness, /verif/vlib/fake_exafmm).

The real ExaFMM evaluates sum_j q_j G(x_i, y_j) and its gradient with respect to x_i approximately; this stub
evaluates the same sums exactly (direct O(N M) summation, self-interaction = 0), so that every line of bempp-cl's
FMM glue code runs and its result can be compared with the dense assembler to rounding.
Written from the mathematical definition; it does not import anything from bempp_cl.
"""

from . import _core  # noqa: F401
from . import laplace, helmholtz, modified_helmholtz  # noqa: F401

CALLS = _core.CALLS
