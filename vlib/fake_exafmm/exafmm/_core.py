import numpy as np

CALLS = []  # one record per evaluate(): dict(mode, nsources, ntargets, k, complex_charges)
FOUR_PI = 4.0 * np.pi


class Tree:
    def __init__(self, sources, charges, targets):
        self.sources = np.array(sources, dtype=np.float64).reshape(-1, 3)
        self.targets = np.array(targets, dtype=np.float64).reshape(-1, 3)
        self.charges = np.array(charges)
        self.values = None


class Fmm:
    def __init__(self, mode, expansion_order, ncrit, wavenumber=None, filename=None):
        self.mode = mode
        self.p = expansion_order
        self.ncrit = ncrit
        self.wavenumber = wavenumber
        self.filename = filename


def init_sources(points, charges):
    return (np.array(points, dtype=np.float64).reshape(-1, 3), np.array(charges))


def init_targets(points):
    return np.array(points, dtype=np.float64).reshape(-1, 3)


def setup(sources, targets, fmm):
    return Tree(sources[0], sources[1], targets)


def update_charges(tree, charges):
    charges = np.asarray(charges)
    if charges.shape[0] != tree.sources.shape[0]:
        raise ValueError("update_charges: %d charges for %d sources" % (charges.shape[0], tree.sources.shape[0]))
    tree.charges = charges.copy()


def clear_values(tree):
    tree.values = None


def evaluate(tree, fmm, chunk=256):
    """(ntargets, 4): potential and gradient with respect to the target point."""
    src, tgt, q = tree.sources, tree.targets, tree.charges
    mode = fmm.mode
    k = fmm.wavenumber
    cplx = mode == "helmholtz" or np.iscomplexobj(q)
    out = np.zeros((tgt.shape[0], 4), dtype=np.complex128 if cplx else np.float64)
    CALLS.append({"mode": mode, "nsources": int(src.shape[0]), "ntargets": int(tgt.shape[0]), "k": None if k is None else complex(k),
                  "complex_charges": bool(np.iscomplexobj(q))})
    for a in range(0, tgt.shape[0], chunk):
        t = tgt[a:a + chunk]
        d = t[:, None, :] - src[None, :, :]            # x - y
        r = np.sqrt(np.sum(d * d, axis=2))
        zero = r == 0
        rs = np.where(zero, 1.0, r)
        if mode == "laplace":
            g = 1.0 / (FOUR_PI * rs)
            dg = -1.0 / (FOUR_PI * rs ** 3)              # (dG/dr)/r
        elif mode == "helmholtz":
            e = np.exp(1j * k * rs)
            g = e / (FOUR_PI * rs)
            dg = e * (1j * k * rs - 1.0) / (FOUR_PI * rs ** 3)
        elif mode == "modified_helmholtz":
            e = np.exp(-k * rs)
            g = e / (FOUR_PI * rs)
            dg = e * (-k * rs - 1.0) / (FOUR_PI * rs ** 3)
        else:
            raise ValueError(mode)
        g = np.where(zero, 0.0, g)
        dg = np.where(zero, 0.0, dg)
        out[a:a + chunk, 0] = g @ q
        for c in range(3):
            out[a:a + chunk, 1 + c] = (dg * d[:, :, c]) @ q
    tree.values = out
    return out
