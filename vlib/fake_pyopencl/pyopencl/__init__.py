"""Import stub: there is no OpenCL runtime (and no pyopencl) in this environment.

It exists only so that `bempp_cl.core.opencl_kernels` can be imported and its kernel selection table
(`select_cl_kernel`) and option builder (`get_kernel_compile_options`) read by C20.  No platform is
reported, so bempp_cl keeps the Numba device interface; nothing is ever compiled or run through this stub."""

VERIF_STUB = True


def get_platforms():
    return []


class _Unavailable:
    def __init__(self, *a, **k):
        raise RuntimeError("pyopencl stub: no OpenCL runtime in this environment")


Context = Program = Buffer = CommandQueue = _Unavailable


class device_type:  # noqa: N801
    ALL = CPU = GPU = None


class context_properties:  # noqa: N801
    PLATFORM = None


class mem_flags:  # noqa: N801
    READ_ONLY = WRITE_ONLY = READ_WRITE = COPY_HOST_PTR = ALLOC_HOST_PTR = 0
