"""Three-valued verdicts, evidence, replay files, known findings, sanitizer sub-worker.

Every check builds one `Ctx`, streams cases through it and calls `finish()`.

exit 0  held on everything observed (KNOWN-FINDING lines may be printed)
exit 1  at least one violation that known_findings.json does not list
        (`VIOLATION property=<id> replay=<path>` on stdout)
exit 2  inconclusive (watchdog, unmet coverage obligation, monitor never reached)
"""

import argparse
import contextlib
import hashlib
import json
import os
import subprocess
import sys
import threading
import time
import traceback
import zlib

import numpy as np

HERE = os.path.dirname(os.path.abspath(__file__))
VERIF = os.path.dirname(HERE)


def _jsonable(x):
    if isinstance(x, dict):
        return {str(k): _jsonable(v) for k, v in x.items()}
    if isinstance(x, (list, tuple, set, frozenset)):
        return [_jsonable(v) for v in x]
    if isinstance(x, np.ndarray):
        if x.size > 4000:
            return {"ndarray_sha1": hashlib.sha1(np.ascontiguousarray(x).tobytes()).hexdigest(), "shape": list(x.shape)}
        if np.iscomplexobj(x):
            return {"re": x.real.tolist(), "im": x.imag.tolist()}
        return x.tolist()
    if isinstance(x, (np.integer,)):
        return int(x)
    if isinstance(x, (np.floating,)):
        return float(x)
    if isinstance(x, (np.complexfloating, complex)):
        return {"re": float(x.real), "im": float(x.imag)}
    if isinstance(x, (np.bool_,)):
        return bool(x)
    if isinstance(x, (str, int, float, bool)) or x is None:
        return x
    return repr(x)


def parse_args(argv=None):
    ap = argparse.ArgumentParser()
    ap.add_argument("--tier", default=os.environ.get("VERIF_TIER", "quick"), choices=["quick", "thorough"])
    ap.add_argument("--seed", type=int, default=int(os.environ.get("VERIF_SEED", "0") or 0))
    ap.add_argument("--replay", default=None)
    ap.add_argument("--worker", default=None, help="internal: run as sub-worker (e.g. 'san')")
    ap.add_argument("--out", default=None, help="internal: sub-worker result file")
    ap.add_argument("--only", default=None, help="only run cases whose id contains this string")
    return ap.parse_args(argv)


def _cleanup_workdir():
    try:
        from vlib import boot

        boot.cleanup()
    except Exception:  # noqa: BLE001
        pass


class Rejected(Exception):
    """Raised by a check when the library deliberately refuses a configuration."""


class Ctx:
    def __init__(self, pid, args=None, watchdog_s=None):
        self.pid = pid
        self.args = args or parse_args()
        self.tier = self.args.tier
        self.quick = self.tier == "quick"
        self.seed = self.args.seed
        self.worker = self.args.worker
        self.t0 = time.time()
        self.evaluations = 0
        self._distinct = set()
        self.samples = []
        self.violations = []  # dicts
        self.known_hits = {}
        self.obligations = {}
        self.notes = {}
        self.counters = {}
        self.rejected = {}
        self.assumptions = []
        self.rule = ""
        self.level = "exploration"
        self.exhaustive = None
        self.inconclusive = []
        self.only_case = None
        self._workers = []
        self._diff = {}
        self._lock = threading.Lock()
        if self.args.replay:
            with open(self.args.replay) as f:
                rp = json.load(f)
            self.only_case = rp.get("case_id")
            self.seed = int(rp.get("seed", self.seed))
            self.tier = rp.get("tier", self.tier)
            self.quick = self.tier == "quick"
        self._known = self._load_known()
        os.environ["VERIF_CHECK"] = pid + ("-" + self.worker if self.worker else "")
        if watchdog_s is None:
            watchdog_s = 3600 if self.quick else 4 * 3600   # generous: a firing watchdog is "inconclusive", never a verdict
        self._wd = threading.Timer(watchdog_s, self._watchdog_fire)
        self._wd.daemon = True
        self._wd.start()

    # ------------------------------------------------------------------ utilities
    def rng(self, *keys):
        ks = [self.seed & 0xFFFFFFFF, zlib.crc32(self.pid.encode())]
        for k in keys:
            ks.append(zlib.crc32(str(k).encode()) if not isinstance(k, (int, np.integer)) else int(k) & 0xFFFFFFFF)
        return np.random.default_rng(ks)

    def want(self, case_id):
        if self.only_case is not None and case_id != self.only_case:
            return False
        if self.args.only and self.args.only not in case_id:
            return False
        return True

    def lap(self, name):
        """Record wall time since the previous lap under `name` (evidence: where the time went)."""
        now = time.time()
        last = getattr(self, "_lap_t", self.t0)
        self.notes.setdefault("wall_by_phase_s", {})[name] = round(self.notes.get("wall_by_phase_s", {}).get(name, 0) + now - last, 1)
        self._lap_t = now

    def diff(self, key, arr, limit=400, scale=0.0):
        """Differential monitor: record a (sub-sampled) result under `key`; the parent compares the value recorded by its
        sanitizer-build worker with its own (production build) to 1e-10 relative."""
        a = np.asarray(arr).ravel()
        if a.size > limit:
            a = a[:: max(1, a.size // limit)][:limit]
        if np.iscomplexobj(a):
            a = np.concatenate([a.real, a.imag])
        self._diff[key] = {"v": a.astype(float).tolist(), "scale": float(scale)}

    def count(self, name, n=1):
        with self._lock:
            self.counters[name] = self.counters.get(name, 0) + n

    def note(self, key, value):
        self.notes[key] = _jsonable(value)

    def note_max(self, key, value):
        value = float(value)
        if not np.isfinite(value):
            self.notes[key] = "non-finite"
            return
        cur = self.notes.get(key)
        if cur is None or (isinstance(cur, (int, float)) and value > cur):
            self.notes[key] = value

    def case(self, case_id, descr=None, nontrivial=True):
        """Record that one case was executed."""
        with self._lock:
            self.evaluations += 1
            d = _jsonable(descr if descr is not None else case_id)
            if nontrivial:
                h = hashlib.sha1(json.dumps(d, sort_keys=True).encode()).hexdigest()
                self._distinct.add(h)
            if len(self.samples) < 4 or (self.evaluations % 97 == 0 and len(self.samples) < 12):
                self.samples.append({"case_id": case_id, "case": d})

    def enough(self, k=6):
        """True once k violations (not known findings) are on record: expensive workloads may stop early - the verdict is
        decided, more witnesses only cost time (coverage obligations are waived by `finish` in that case)."""
        return len(self.violations) >= k

    def obligation(self, name, met, detail=None):
        self.obligations[name] = {"met": bool(met), "detail": _jsonable(detail)}

    def reject(self, message):
        key = str(message)[:160]
        self.rejected[key] = self.rejected.get(key, 0) + 1

    # ------------------------------------------------------------------ violations
    def _load_known(self):
        path = os.path.join(VERIF, "known_findings.json")
        out = {}
        if os.path.exists(path):
            with open(path) as f:
                doc = json.load(f)
            for ent in doc.get("findings", []):
                if ent.get("property") != self.pid or ent.get("status") != "known":
                    continue
                for m in ent.get("mechanisms", []):
                    out[m] = ent
        return out

    def violation(self, mechanism, message, case_id=None, data=None):
        """Report a violation. `mechanism` is the stable classifier key (never a seed or hash)."""
        ent = self._known.get(mechanism)
        rec = {
            "mechanism": mechanism,
            "message": str(message)[:2000],
            "case_id": case_id,
            "known": ent is not None,
        }
        with self._lock:
            if ent is not None:
                k = self.known_hits.setdefault(mechanism, {"what": ent.get("what", ""), "count": 0, "first": rec})
                k["count"] += 1
                return
            n_same = sum(1 for v in self.violations if v["mechanism"] == mechanism)
            if n_same >= 5:
                self.counters["violations_suppressed_after_5_per_mechanism"] = (
                    self.counters.get("violations_suppressed_after_5_per_mechanism", 0) + 1
                )
                return
            if self.worker:
                rec["replay"] = None
                self.violations.append(rec)
                return
            rdir = os.path.join(VERIF, "replay", self.pid)
            os.makedirs(rdir, exist_ok=True)
            h = hashlib.sha1((mechanism + "|" + str(case_id) + "|" + str(self.seed)).encode()).hexdigest()[:12]
            rpath = os.path.join(rdir, h + ".json")
            doc = {
                "property": self.pid,
                "tier": self.tier,
                "seed": self.seed,
                "case_id": case_id,
                "mechanism": mechanism,
                "message": rec["message"],
                "data": _jsonable(data),
            }
            with open(rpath, "w") as f:
                json.dump(doc, f, indent=1)
            rec["replay"] = rpath
            self.violations.append(rec)
        print("VIOLATION property=%s replay=%s" % (self.pid, rpath), flush=True)
        print("  mechanism=%s case=%s :: %s" % (mechanism, case_id, rec["message"][:400]), flush=True)

    @contextlib.contextmanager
    def guard(self, case_id, mechanism, allow=(), site=False):
        """Run a case; an unexpected exception in a well-formed case is a violation.

        `allow` lists substrings of deliberate library rejections (logged, not violations).
        `site`: append the innermost bempp_cl function of the traceback to the mechanism (call-site keyed findings)."""
        try:
            yield
        except Rejected as e:
            self.reject(str(e))
        except (KeyboardInterrupt, SystemExit):
            raise
        except BaseException as e:  # noqa: BLE001
            msg = "%s: %s" % (type(e).__name__, e)
            if any(a in msg for a in allow):
                self.reject(msg)
                return
            tb = traceback.format_exc(limit=12)
            where = ""
            if site:
                frames = [f for f in traceback.extract_tb(e.__traceback__) if "bempp_cl" in f.filename]
                where = ":at:" + (frames[-1].name if frames else "outside_bempp_cl")
            self.violation(mechanism + ":exception:" + type(e).__name__ + where, msg + "\n" + tb, case_id=case_id)

    # ------------------------------------------------------------------ sub-workers (sanitizer build, other threading layer, ...)
    def spawn_worker(self, module, name, env_extra=None, extra_args=()):
        """Start a sub-worker of this check (same module, `--worker <name>`) in the background."""
        if self.worker:
            return
        out = os.path.join(VERIF, ".work", "%s.%s.%d.json" % (self.pid, name, os.getpid()))
        os.makedirs(os.path.dirname(out), exist_ok=True)
        env = dict(os.environ)
        env.update(env_extra or {})
        env["PYTHONPATH"] = VERIF + os.pathsep + env.get("PYTHONPATH", "")
        cmd = [sys.executable, "-X", "faulthandler", "-m", module, "--worker", name, "--out", out,
               "--tier", self.tier, "--seed", str(self.seed)] + list(extra_args)
        if self.args.replay:
            cmd += ["--replay", self.args.replay]
        if self.args.only:
            cmd += ["--only", self.args.only]
        log = open(out + ".log", "w")
        p = subprocess.Popen(cmd, cwd=VERIF, env=env, stdout=log, stderr=subprocess.STDOUT)
        self._workers.append((name, p, out, log))

    def spawn_san(self, module, extra_args=()):
        """Sanitizer-build worker: same module, Numba kernels recompiled serial + bounds-checked + no fastmath."""
        self.spawn_worker(module, "san", {"VERIF_BUILD": "san"}, extra_args)

    def _join_workers(self):
        for name, p, out, log in self._workers:
            budget = 3300 if self.quick else 4 * 3600 - 300
            try:
                rc = p.wait(timeout=max(60, budget - (time.time() - self.t0)))
            except subprocess.TimeoutExpired:
                p.kill()
                self.inconclusive.append("%s worker timed out" % name)
                rc = None
            log.close()
            tail = ""
            try:
                with open(out + ".log") as f:
                    tail = f.read()[-3000:]
            except OSError:
                pass
            res = None
            if os.path.exists(out):
                try:
                    with open(out) as f:
                        res = json.load(f)
                except Exception:  # noqa: BLE001
                    res = None
            for pth in (out, out + ".log"):
                with contextlib.suppress(OSError):
                    os.remove(pth)
            if rc is None:
                continue
            if res is None:
                self.violation("%s_worker:crash" % name, "%s worker exited with %s and no result\n%s" % (name, rc, tail))
                continue
            self.notes["worker_" + name] = {
                "cases": res.get("evaluations"),
                "counters": res.get("counters"),
                "notes": res.get("notes"),
                "violations": len(res.get("violations", [])),
                "known_hits": {k: v["count"] for k, v in res.get("known_hits", {}).items()},
                "wall_s": res.get("wall_s"),
            }
            for v in res.get("violations", []):
                m = v["mechanism"]
                self.violation(m if m.startswith(name + ":") else name + ":" + m, v["message"], case_id=v.get("case_id"))
            ncmp = 0
            worstd = 0.0
            for key, theirs in (res.get("diff") or {}).items():
                mine = self._diff.get(key)
                if mine is None:
                    continue
                a, b = np.asarray(mine["v"]), np.asarray(theirs["v"])
                ncmp += 1
                if a.shape != b.shape:
                    self.violation("%s:differential:shape" % name, "%s: %s vs %s" % (key, a.shape, b.shape), case_id=key)
                    continue
                # relative to the natural magnitude of the quantity (given by the check), not to rounding noise around zero
                sc = max(np.abs(a).max() if a.size else 0.0, np.abs(b).max() if b.size else 0.0, mine.get("scale", 0.0), 1e-300)
                d = float(np.abs(a - b).max() / sc) if a.size else 0.0
                worstd = max(worstd, d)
                if not np.isfinite(d) or d > 1e-10:
                    self.violation("%s:differential:%s" % (name, key.split(":")[0]), "%s: production and %s build differ by %.3e (relative)" % (key, name, d), case_id=key)
            if res.get("diff"):
                self.notes["worker_" + name]["differential_comparisons"] = ncmp
                self.notes["worker_" + name]["differential_worst_rel"] = worstd
            for m, k in res.get("known_hits", {}).items():
                kk = self.known_hits.setdefault(m, {"what": k.get("what", ""), "count": 0, "first": k.get("first")})
                kk["count"] += k["count"]
            if res.get("evaluations", 0) == 0 and self.only_case is None and not self.args.only:
                self.inconclusive.append("%s worker observed no case" % name)

    # ------------------------------------------------------------------ finish
    def _watchdog_fire(self):
        self.inconclusive.append("watchdog expired")
        print("INCONCLUSIVE property=%s reason=watchdog" % self.pid, flush=True)
        try:
            self._write_evidence()
        finally:
            _cleanup_workdir()
            os._exit(2)

    def _coverage(self):
        cov = {
            "evaluations": int(self.evaluations),
            "distinct_nontrivial": int(len(self._distinct)),
            "rule": self.rule,
            "samples": self.samples[:12],
            "coverage_obligations": self.obligations,
            "counters": self.counters,
            "rejected_by_library": self.rejected,
            "known_findings_observed": {m: {"count": k["count"], "what": k["what"]} for m, k in self.known_hits.items()},
            "violations": [{k: v for k, v in d.items() if k != "known"} for d in self.violations[:20]],
            "inconclusive_reasons": self.inconclusive,
        }
        if self.exhaustive is not None:
            cov["exhaustive"] = bool(self.exhaustive)
        cov.update(self.notes)
        return cov

    def _write_evidence(self):
        doc = {
            "property_id": self.pid,
            "tier": self.tier,
            "seed": int(self.seed),
            "level": self.level,
            "coverage": self._coverage(),
            "assumptions": self.assumptions,
            "wall_s": round(time.time() - self.t0, 2),
            "violations": len(self.violations),
        }
        if self.worker:
            doc = {
                "evaluations": self.evaluations,
                "violations": self.violations,
                "known_hits": self.known_hits,
                "counters": self.counters,
                "notes": self.notes,
                "diff": self._diff,
                "wall_s": round(time.time() - self.t0, 2),
            }
            path = self.args.out
        else:
            # evidence/ only ever describes complete runs against /repo itself: self-tests against a scratch copy
            # (VERIF_REPO) and partial runs (--only / --replay) write to the git-ignored work directory instead.
            partial = bool(self.args.only) or self.only_case is not None
            scratch = os.path.realpath(os.environ.get("VERIF_REPO", "/repo")) != os.path.realpath("/repo") or bool(os.environ.get("VERIF_SELFTEST"))
            edir = os.path.join(VERIF, ".work", "evidence-selftest") if (partial or scratch) else os.path.join(VERIF, "evidence")
            os.makedirs(edir, exist_ok=True)
            path = os.path.join(edir, self.pid + ".json")
        tmp = path + ".tmp.%d" % os.getpid()
        with open(tmp, "w") as f:
            json.dump(_jsonable(doc), f, indent=1, sort_keys=False)
        os.replace(tmp, path)

    def finish(self):
        self._join_workers()
        self._wd.cancel()
        unmet = [n for n, o in self.obligations.items() if not o["met"]]
        if self.only_case is None and not self.args.only:
            for n in unmet:
                self.inconclusive.append("coverage obligation not met: " + n)
            if self.evaluations == 0:
                self.inconclusive.append("no case was executed")
        self._write_evidence()
        if self.worker:
            sys.stdout.flush()
            _cleanup_workdir()
            os._exit(0)
        for m, k in self.known_hits.items():
            print("KNOWN-FINDING: property=%s %s [%s; seen %d×]" % (self.pid, k["what"], m, k["count"]), flush=True)
        dt = time.time() - self.t0
        if self.violations:
            print("RESULT property=%s violated (%d) evaluations=%d wall=%.0fs" % (self.pid, len(self.violations), self.evaluations, dt), flush=True)
            code = 1
        elif self.inconclusive:
            for r in self.inconclusive:
                print("INCONCLUSIVE property=%s reason=%s" % (self.pid, r), flush=True)
            code = 2
        else:
            print("RESULT property=%s held evaluations=%d distinct=%d wall=%.0fs" % (self.pid, self.evaluations, len(self._distinct), dt), flush=True)
            code = 0
        sys.stdout.flush()
        sys.stderr.flush()
        _cleanup_workdir()
        if os.environ.get("VERIF_SELFTEST") and "coverage" in sys.modules:   # tools/coverage_audit.sh: os._exit skips atexit
            try:
                import coverage

                cov = coverage.Coverage.current()
                if cov is not None:
                    cov.stop()
                    cov.save()
            except Exception:  # noqa: BLE001
                pass
        # numba/omp teardown can be slow or noisy; results are on disk.
        os._exit(code)
