"""Runtime monitors: invariant walkers for live Grid / FunctionSpace objects, launch recorder.

Walkers return a list of (mechanism, message) problems; the owning check turns them into violations.
All reference values come from `vlib.refmodel` (brute force), never from bempp_cl helper code.
"""

import threading

import numpy as np

from vlib import refmodel as R

EDGE_LOCAL = ((0, 1), (2, 0), (1, 2))  # documented local edge numbering of bempp-cl
GEOM_TOL = 1e-12


# ============================================================================= grid walker


def grid_problems(grid, src_V=None, src_E=None, src_D=None, geometry=True):
    """Complete walker for one Grid against the brute-force model. O(N * valence^2)."""
    P = []
    add = lambda m, s: P.append((m, s))  # noqa: E731
    V = np.asarray(grid.vertices)
    E = np.asarray(grid.elements).astype(np.int64)
    ne, nv = E.shape[1], V.shape[1]

    # ---- input preserved
    if src_V is not None:
        if V.shape != np.asarray(src_V).shape or not np.array_equal(V, np.asarray(src_V, dtype=np.float64)):
            add("grid:input_vertices_changed", "vertices differ from the constructor input")
    if src_E is not None:
        if E.shape != np.asarray(src_E).shape or not np.array_equal(E, np.asarray(src_E).astype(np.int64)):
            add("grid:input_elements_changed", "elements differ from the constructor input")
    if src_D is not None:
        if not np.array_equal(np.asarray(grid.domain_indices).astype(np.int64), np.asarray(src_D).astype(np.int64)):
            add("grid:input_domain_indices_changed", "domain indices differ from the constructor input")
    if grid.number_of_elements != ne or grid.number_of_vertices != nv:
        add("grid:counts", "number_of_elements/vertices disagree with the arrays")
    if len(np.asarray(grid.domain_indices)) != ne:
        add("grid:domain_indices_length", "%d domain indices for %d elements" % (len(grid.domain_indices), ne))

    # ---- edges: each undirected edge exactly once
    inc = R.brute_edges(E)
    edges = np.asarray(grid.edges).astype(np.int64)
    if edges.ndim != 2 or edges.shape[0] != 2:
        add("grid:edges_shape", "edges has shape %s" % (edges.shape,))
        return P
    if grid.number_of_edges != edges.shape[1]:
        add("grid:counts", "number_of_edges")
    lib_edges = [(int(min(a, b)), int(max(a, b))) for a, b in edges.T]
    if len(set(lib_edges)) != len(lib_edges):
        add("grid:edge_listed_twice", "an undirected edge appears more than once in grid.edges")
    if set(lib_edges) != set(inc.keys()):
        add("grid:edge_set", "edge set differs from brute force: missing %d, extra %d"
            % (len(set(inc) - set(lib_edges)), len(set(lib_edges) - set(inc))))
    index_of = {k: i for i, k in enumerate(lib_edges)}

    # ---- element_edges
    ee = np.asarray(grid.element_edges).astype(np.int64)
    if ee.shape != (3, ne):
        add("grid:element_edges_shape", "shape %s" % (ee.shape,))
    else:
        for e in range(ne):
            for li, (a, b) in enumerate(EDGE_LOCAL):
                k = (int(min(E[a, e], E[b, e])), int(max(E[a, e], E[b, e])))
                idx = ee[li, e]
                if not (0 <= idx < len(lib_edges)) or lib_edges[idx] != k:
                    add("grid:element_edges", "element %d local edge %d -> edge %d which is %s, expected %s"
                        % (e, li, idx, lib_edges[idx] if 0 <= idx < len(lib_edges) else None, k))
                    break

    # ---- edge_neighbors
    en = grid.edge_neighbors
    if len(en) != len(lib_edges):
        add("grid:edge_neighbors_len", "%d entries for %d edges" % (len(en), len(lib_edges)))
    else:
        for i, k in enumerate(lib_edges):
            if sorted(int(x) for x in en[i]) != sorted(inc.get(k, [])):
                add("grid:edge_neighbors", "edge %d %s: %s vs brute %s" % (i, k, list(en[i]), inc.get(k)))
                break

    # ---- vertex_neighbors
    vn = grid.vertex_neighbors
    byv = [[] for _ in range(nv)]
    for e in range(ne):
        for l in range(3):
            byv[int(E[l, e])].append(e)
    try:
        for v in range(nv):
            got = sorted(int(x) for x in vn.indices[vn.indexptr[v]:vn.indexptr[v + 1]])
            if got != sorted(set(byv[v])):
                add("grid:vertex_neighbors", "vertex %d: %s vs brute %s" % (v, got, sorted(set(byv[v]))))
                break
    except Exception as e:  # noqa: BLE001
        add("grid:vertex_neighbors", "unreadable: %r" % (e,))

    # ---- element_neighbors (share >= 1 vertex, itself included)
    eln = grid.element_neighbors
    try:
        for e in range(ne):
            got = sorted(int(x) for x in eln.indices[eln.indexptr[e]:eln.indexptr[e + 1]])
            want = set()
            for l in range(3):
                want.update(byv[int(E[l, e])])
            if got != sorted(want):
                add("grid:element_neighbors", "element %d: %s vs brute %s" % (e, got, sorted(want)))
                break
    except Exception as ex:  # noqa: BLE001
        add("grid:element_neighbors", "unreadable: %r" % (ex,))

    # ---- adjacency tables
    adj = R.brute_adjacency(E)
    ea = np.asarray(grid.edge_adjacency).astype(np.int64)
    va = np.asarray(grid.vertex_adjacency).astype(np.int64)
    if ea.ndim != 2 or ea.shape[0] != 6:
        add("grid:edge_adjacency_shape", "shape %s" % (ea.shape,))
    else:
        pairs = [(int(a), int(b)) for a, b in ea[:2].T]
        if len(set(pairs)) != len(pairs):
            add("grid:edge_adjacency_duplicate", "an ordered pair is listed twice")
        if set(pairs) != set(adj["edge"].keys()):
            add("grid:edge_adjacency_pairs", "pairs differ from brute force: missing %s extra %s"
                % (sorted(set(adj["edge"]) - set(pairs))[:4], sorted(set(pairs) - set(adj["edge"]))[:4]))
        for c in range(ea.shape[1]):
            e0, e1, a0, a1, b0, b1 = ea[:, c]
            ok = (0 <= a0 < 3 and 0 <= a1 < 3 and 0 <= b0 < 3 and 0 <= b1 < 3 and a0 != a1 and b0 != b1
                  and 0 <= e0 < ne and 0 <= e1 < ne
                  and E[a0, e0] == E[b0, e1] and E[a1, e0] == E[b1, e1])
            if not ok:
                add("grid:edge_adjacency_local_indices", "column %d = %s does not dereference to shared vertices" % (c, ea[:, c].tolist()))
                break
    if va.ndim != 2 or va.shape[0] != 4:
        add("grid:vertex_adjacency_shape", "shape %s" % (va.shape,))
    else:
        pairs = [(int(a), int(b)) for a, b in va[:2].T]
        if len(set(pairs)) != len(pairs):
            add("grid:vertex_adjacency_duplicate", "an ordered pair is listed twice")
        if set(pairs) != set(adj["vertex"].keys()):
            add("grid:vertex_adjacency_pairs", "pairs differ from brute force: missing %s extra %s"
                % (sorted(set(adj["vertex"]) - set(pairs))[:4], sorted(set(pairs) - set(adj["vertex"]))[:4]))
        for c in range(va.shape[1]):
            e0, e1, a0, b0 = va[:, c]
            ok = 0 <= a0 < 3 and 0 <= b0 < 3 and 0 <= e0 < ne and 0 <= e1 < ne and E[a0, e0] == E[b0, e1]
            if not ok:
                add("grid:vertex_adjacency_local_indices", "column %d = %s" % (c, va[:, c].tolist()))
                break

    # ---- boundary flags
    eob = np.asarray(grid.edge_on_boundary)
    vob = np.asarray(grid.vertex_on_boundary)
    want_e = np.array([len(inc.get(k, [])) == 1 for k in lib_edges], dtype=bool)
    if eob.shape != want_e.shape or not np.array_equal(eob.astype(bool), want_e):
        add("grid:edge_on_boundary", "flags differ from 'exactly one neighbour'")
    want_v = np.zeros(nv, dtype=bool)
    for k, els in inc.items():
        if len(els) == 1:
            want_v[list(k)] = True
    if vob.shape != want_v.shape or not np.array_equal(vob.astype(bool), want_v):
        add("grid:vertex_on_boundary", "flags differ from 'vertex of a boundary edge'")

    if geometry:
        P += grid_geometry_problems(grid)
    return P


def grid_geometry_problems(grid):
    P = []
    add = lambda m, s: P.append((m, s))  # noqa: E731
    V = np.asarray(grid.vertices)
    E = np.asarray(grid.elements).astype(np.int64)
    ne = E.shape[1]
    p0, p1, p2 = V[:, E[0]].T, V[:, E[1]].T, V[:, E[2]].T
    a, b = p1 - p0, p2 - p0
    cr = np.cross(a, b)
    nrm = np.linalg.norm(cr, axis=1)
    scale = max(1e-300, float(np.abs(V).max()) if V.size else 1.0)
    h = np.maximum(np.linalg.norm(a, axis=1), np.linalg.norm(b, axis=1))

    def close(x, y, s):
        return np.all(np.abs(np.asarray(x) - np.asarray(y)) <= GEOM_TOL * np.maximum(s, 1e-300) * 64)

    n = np.asarray(grid.normals)
    if n.shape != (ne, 3):
        add("grid:normals_shape", str(n.shape))
    else:
        if not close(np.linalg.norm(n, axis=1), 1.0, 1.0):
            add("grid:normals_not_unit", "max | |n|-1 | = %.3e" % np.abs(np.linalg.norm(n, axis=1) - 1).max())
        if not close(n, cr / nrm[:, None], 1.0):
            add("grid:normals_not_right_handed", "normals differ from (p1-p0)x(p2-p0)/|.|")
    vol = np.asarray(grid.volumes)
    if vol.shape != (ne,) or not close(vol, 0.5 * nrm, nrm):
        add("grid:volumes", "volumes differ from triangle areas")
    ie = np.asarray(grid.integration_elements)
    if ie.shape != (ne,) or not close(ie, nrm, nrm):
        add("grid:integration_elements", "integration elements differ from 2*area")
    cen = np.asarray(grid.centroids)
    if cen.shape != (ne, 3) or not close(cen, (p0 + p1 + p2) / 3.0, scale):
        add("grid:centroids", "centroids differ from vertex means")
    J = np.asarray(grid.jacobians)
    if J.shape != (ne, 3, 2) or not (close(J[:, :, 0], a, scale) and close(J[:, :, 1], b, scale)):
        add("grid:jacobians", "jacobians differ from [p1-p0, p2-p0]")
    JIT = np.asarray(grid.jacobian_inverse_transposed)
    if JIT.shape != (ne, 3, 2):
        add("grid:jac_inv_trans_shape", str(JIT.shape))
    else:
        for e in range(ne):
            Je = np.column_stack([a[e], b[e]])
            want = R.jac_inv_trans(Je)
            if not np.all(np.abs(JIT[e] - want) <= 1e-9 * np.abs(want).max()):
                add("grid:jac_inv_trans", "element %d" % e)
                break
    dia = np.asarray(grid.diameters)
    la, lb, lc = np.linalg.norm(a, axis=1), np.linalg.norm(b, axis=1), np.linalg.norm(a - b, axis=1)
    want = la * lb * lc / nrm
    if dia.shape != (ne,) or not np.all(np.abs(dia - want) <= 1e-10 * want):
        add("grid:diameters", "diameters differ from circumdiameter abc/(2A)")
    else:
        if abs(grid.maximum_element_diameter - want.max()) > 1e-10 * want.max() or abs(grid.minimum_element_diameter - want.min()) > 1e-10 * want.max():
            add("grid:min_max_diameter", "maximum/minimum_element_diameter")
    bb = np.asarray(grid.bounding_box)
    if not (np.array_equal(bb[:, 0], V.min(axis=1)) and np.array_equal(bb[:, 1], V.max(axis=1))):
        add("grid:bounding_box", "bounding box")
    # numba containers carry the same arrays
    gd = grid.data("double")
    for nm in ("vertices", "elements", "normals", "volumes", "integration_elements", "centroids", "diameters", "jacobians",
               "jac_inv_trans", "element_edges", "domain_indices"):
        try:
            got = np.asarray(getattr(gd, nm))
        except Exception:  # noqa: BLE001
            continue
        ref = {"jac_inv_trans": grid.jacobian_inverse_transposed}.get(nm, None)
        ref = np.asarray(getattr(grid, nm)) if ref is None else np.asarray(ref)
        if got.shape != ref.shape or not np.array_equal(got, ref):
            add("grid:data_container_mismatch", "grid.data('double').%s differs from grid.%s" % (nm, nm))
    gs = grid.data("single")
    for nm in ("vertices", "normals", "integration_elements"):
        got = np.asarray(getattr(gs, nm))
        ref = np.asarray(getattr(grid, nm))
        if got.shape != ref.shape or not np.all(np.abs(got - ref) <= 2e-7 * np.maximum(np.abs(ref), scale if nm == "vertices" else 1e-30)):
            add("grid:single_container_mismatch", "grid.data('single').%s" % nm)
    # local2global of the container
    try:
        pts = np.array([[0.2, 0.5], [0.3, 0.1]])
        for e in (0, ne - 1):
            got = gd.local2global(e, pts)
            want_p = p0[e][:, None] + np.column_stack([a[e], b[e]]) @ pts
            if not np.all(np.abs(got - want_p) <= 1e-12 * scale):
                add("grid:local2global", "element %d" % e)
    except Exception as ex:  # noqa: BLE001
        add("grid:local2global", repr(ex))
    return P


def cheap_grid_problems(grid):
    """O(N) tripwire used as a constructor post-condition in every worker."""
    P = []
    E = np.asarray(grid.elements).astype(np.int64)
    ee = np.asarray(grid.element_edges).astype(np.int64)
    edges = np.asarray(grid.edges).astype(np.int64)
    ne = E.shape[1]
    if ee.shape != (3, ne):
        return [("grid:element_edges_shape", str(ee.shape))]
    for li, (a, b) in enumerate(EDGE_LOCAL):
        lo = np.minimum(E[a], E[b])
        hi = np.maximum(E[a], E[b])
        ed = edges[:, ee[li]]
        if not (np.array_equal(np.minimum(ed[0], ed[1]), lo) and np.array_equal(np.maximum(ed[0], ed[1]), hi)):
            P.append(("grid:element_edges", "local edge %d" % li))
    n = np.asarray(grid.normals)
    if not np.all(np.abs(np.linalg.norm(n, axis=1) - 1) < 1e-10):
        P.append(("grid:normals_not_unit", ""))
    return P


# ============================================================================= constructor hooks


class Hooks:
    """Post-condition hooks on Grid.__init__ / FunctionSpace.__init__ (class attributes, so every
    construction path is seen). Problems are queued; the owning check drains them."""

    def __init__(self):
        self.grid_calls = 0
        self.space_calls = 0
        self.problems = []
        self.lock = threading.Lock()
        self._installed = False
        self.grid_fn = cheap_grid_problems
        self.space_fn = None
        self.enabled = True

    def install(self):
        if self._installed:
            return self
        from bempp_cl.api.grid.grid import Grid
        from bempp_cl.api.space.space import FunctionSpace

        hooks = self
        g_init = Grid.__init__
        s_init = FunctionSpace.__init__

        def grid_init(self_, *a, **k):
            g_init(self_, *a, **k)
            if hooks.enabled and hooks.grid_fn is not None:
                with hooks.lock:
                    hooks.grid_calls += 1
                try:
                    pr = hooks.grid_fn(self_)
                except Exception as e:  # noqa: BLE001
                    pr = [("grid:walker_exception", repr(e))]
                if pr:
                    with hooks.lock:
                        hooks.problems += [("Grid.__init__",) + p for p in pr]

        def space_init(self_, *a, **k):
            s_init(self_, *a, **k)
            if hooks.enabled and hooks.space_fn is not None:
                with hooks.lock:
                    hooks.space_calls += 1
                try:
                    pr = hooks.space_fn(self_)
                except Exception as e:  # noqa: BLE001
                    pr = [("space:walker_exception", repr(e))]
                if pr:
                    with hooks.lock:
                        hooks.problems += [("FunctionSpace.__init__",) + p for p in pr]

        grid_init.__wrapped__ = g_init
        space_init.__wrapped__ = s_init
        Grid.__init__ = grid_init
        FunctionSpace.__init__ = space_init
        self._installed = True
        return self

    def drain(self):
        with self.lock:
            out, self.problems = self.problems, []
        return out


HOOKS = Hooks()


# ============================================================================= launch recorder (M-LAUNCH)


class LaunchRecorder:
    """Wraps bempp_cl.core.numba_kernels.select_numba_kernels: the *assembly* function handed to the callers is
    replaced by a Python shim that records / validates the real launch arguments and then calls the real
    dispatcher. The kernel function is passed through untouched (it is consumed inside JIT code).

    Per launch: pre-launch bounds validation of every index argument against the array extents (the production
    kernels are compiled with boundscheck=False), and for regular launches the write-set disjointness of the
    test elements processed concurrently (lockset-style race monitor)."""

    def __init__(self):
        self.installed = False
        self.counts = {}
        self.problems = []
        self.lock = threading.Lock()
        self.max_colours = 0
        self.regular_launches = 0
        self.elements_in_regular_launches = 0
        self.max_parallel_elements = 0
        self.keep_log = False
        self.log = []

    def install(self):
        if self.installed:
            return self
        import bempp_cl.core.numba_kernels as nk

        real_select = nk.select_numba_kernels
        rec = self

        def select(operator_descriptor, mode="regular"):
            fn, kern = real_select(operator_descriptor, mode=mode)
            name = getattr(fn, "__name__", None) or getattr(getattr(fn, "py_func", None), "__name__", "?")
            kname = getattr(kern, "__name__", None) or getattr(getattr(kern, "py_func", None), "__name__", "?")

            def shim(*args):
                rec._before(mode, name, kname, args)
                return fn(*args)

            shim.__name__ = "shim_" + name
            shim.__wrapped__ = fn
            return shim, kern

        select.__wrapped__ = real_select
        nk.select_numba_kernels = select
        self.installed = True
        return self

    def _add(self, mech, msg):
        with self.lock:
            if len(self.problems) < 200:
                self.problems.append((mech, msg))

    def drain(self):
        with self.lock:
            out, self.problems = self.problems, []
        return out

    def _before(self, mode, name, kname, a):
        with self.lock:
            key = "%s:%s" % (mode, name)
            self.counts[key] = self.counts.get(key, 0) + 1
        try:
            if mode == "regular":
                self._regular(name, kname, a)
            elif mode == "singular":
                self._singular(name, kname, a)
            elif mode == "sparse":
                self._sparse(name, kname, a)
            elif mode == "potential":
                self._potential(name, kname, a)
        except Exception as e:  # noqa: BLE001
            self._add("launch:monitor_exception", "%s %s: %r" % (mode, name, e))

    def _regular(self, name, kname, a):
        (tgd, sgd, nshape_test, nshape_trial, test_elements, trial_elements, tmult, smult, tdofs, sdofs, tnm, snm,
         qp, qw, kern, kpar, grids_identical, tshape, sshape, result) = a
        te = np.asarray(test_elements).astype(np.int64)
        se = np.asarray(trial_elements).astype(np.int64)
        tdofs = np.asarray(tdofs).astype(np.int64)
        sdofs = np.asarray(sdofs).astype(np.int64)
        nte = tgd.elements.shape[1]
        nse = sgd.elements.shape[1]
        with self.lock:
            self.regular_launches += 1
            self.elements_in_regular_launches += len(te)
            self.max_parallel_elements = max(self.max_parallel_elements, len(te))
            if self.keep_log:
                self.log.append({"fn": name, "kernel": kname, "ntest": int(len(te)), "ntrial": int(len(se)),
                                 "grids_identical": bool(grids_identical), "result": list(result.shape), "dtype": str(result.dtype)})
        if len(te) and (te.min() < 0 or te.max() >= nte or te.max() >= tdofs.shape[0] or te.max() >= np.asarray(tmult).shape[0]):
            self._add("launch:test_element_out_of_range", "%s: test element index %d for %d elements" % (name, te.max(), nte))
            return
        if len(se) and (se.min() < 0 or se.max() >= nse or se.max() >= sdofs.shape[0] or se.max() >= np.asarray(smult).shape[0]):
            self._add("launch:trial_element_out_of_range", "%s: trial element index %d for %d elements" % (name, se.max(), nse))
            return
        if tdofs.shape[1] != nshape_test or sdofs.shape[1] != nshape_trial:
            self._add("launch:shape_function_count", "%s: dof maps have %d/%d columns for %d/%d shape functions" % (name, tdofs.shape[1], sdofs.shape[1], nshape_test, nshape_trial))
        if len(te) and tdofs[te].max() >= result.shape[0]:
            self._add("launch:row_out_of_bounds", "%s: global test dof %d >= %d rows" % (name, tdofs[te].max(), result.shape[0]))
        if len(se) and sdofs[se].max() >= result.shape[1]:
            self._add("launch:col_out_of_bounds", "%s: global trial dof %d >= %d cols" % (name, sdofs[se].max(), result.shape[1]))
        if len(np.asarray(tnm)) < nte or len(np.asarray(snm)) < nse:
            self._add("launch:normal_multipliers_length", name)
        if np.asarray(qp).shape[1] != len(np.asarray(qw)):
            self._add("launch:quadrature_shape", name)
        # write-set monitor: the prange loop runs over test elements; rows written by element e are tdofs[e, :]
        # (zero-multiplier artificial dofs included: the kernel executes += on them too)
        owner = {}
        for e in te.tolist():
            for d in set(tdofs[e].tolist()):
                o = owner.get(d)
                if o is not None and o != e:
                    self._add("launch:write_set_overlap", "%s: test elements %d and %d are processed in the same parallel launch and both write row %d"
                              % (name, o, e, d))
                    return
                owner[d] = e
        if len(set(te.tolist())) != len(te):
            self._add("launch:write_set_overlap", "%s: a test element appears twice in one launch" % name)

    def _singular(self, name, kname, a):
        (gd, tp, sp, qw, te, se, toff, soff, woff, nq, tnm, snm, nshape_test, nshape_trial, tshape, sshape, kern, kpar, result) = a
        te = np.asarray(te).astype(np.int64)
        se = np.asarray(se).astype(np.int64)
        toff = np.asarray(toff).astype(np.int64)
        soff = np.asarray(soff).astype(np.int64)
        woff = np.asarray(woff).astype(np.int64)
        nq = np.asarray(nq).astype(np.int64)
        n = len(te)
        ne = gd.elements.shape[1]
        if self.keep_log:
            with self.lock:
                self.log.append({"fn": name, "kernel": kname, "pairs": int(n), "result": int(result.size)})
        if not (len(se) == len(toff) == len(soff) == len(woff) == len(nq) == n):
            self._add("launch:singular_array_lengths", name)
            return
        if result.size != nshape_test * nshape_trial * n:
            self._add("launch:singular_result_size", "%s: %d slots for %d pairs x %d x %d" % (name, result.size, n, nshape_test, nshape_trial))
        if n == 0:
            return
        if te.max() >= ne or se.max() >= ne:
            self._add("launch:singular_element_out_of_range", name)
        if (toff + nq).max() > np.asarray(tp).shape[1] or (soff + nq).max() > np.asarray(sp).shape[1]:
            self._add("launch:singular_points_out_of_bounds", "%s: offset+npoints exceeds the point table" % name)
        if (woff + nq).max() > len(np.asarray(qw)):
            self._add("launch:singular_weights_out_of_bounds", "%s: offset+npoints exceeds the weight table" % name)

    def _sparse(self, name, kname, a):
        (gd, nshape_test, nshape_trial, elements, qp, qw, tnm, snm, tmult, smult, tsh, ssh, tev, sev, kern, result) = a
        el = np.asarray(elements).astype(np.int64)
        ne = gd.elements.shape[1]
        if result.size != nshape_test * nshape_trial * len(el):
            self._add("launch:sparse_result_size", "%s: %d slots for %d elements x %d x %d" % (name, result.size, len(el), nshape_test, nshape_trial))
        if len(el) and (el.max() >= ne or el.max() >= np.asarray(tmult).shape[0] or el.max() >= np.asarray(smult).shape[0]):
            self._add("launch:sparse_element_out_of_range", name)
        if len(set(el.tolist())) != len(el):
            self._add("launch:write_set_overlap", "%s: an element appears twice in one sparse launch" % name)

    def _potential(self, name, kname, a):
        (dtype, rtype, kdim, points, x, gd, qp, qw, nshape, shapeset, kern, kpar, nm, support_elements) = a
        se = np.asarray(support_elements).astype(np.int64)
        ne = gd.elements.shape[1]
        if len(se) and se.max() >= ne:
            self._add("launch:potential_element_out_of_range", name)
        if len(se) and len(np.asarray(x)) < nshape * (se.max() + 1):
            self._add("launch:potential_coefficients_out_of_bounds", "%s: coefficient vector of length %d read at %d" % (name, len(x), nshape * (se.max() + 1) - 1))
        if np.asarray(points).shape[0] != 3:
            self._add("launch:potential_points_shape", name)
        if len(np.asarray(nm)) < ne:
            self._add("launch:normal_multipliers_length", name)

    def summary(self):
        return {"launches": dict(self.counts), "regular_launches": self.regular_launches,
                "test_elements_in_regular_launches": self.elements_in_regular_launches,
                "max_test_elements_in_one_launch": self.max_parallel_elements}


LAUNCH = LaunchRecorder()
