"""Process set-up for every check worker.

Must be imported (and `boot()` called) before `bempp_cl` or `numba` is imported.

* puts the tree under test (VERIF_REPO, default /repo) first on sys.path and asserts that
  `bempp_cl` is really imported from there (the editable-install finder would otherwise win);
* selects the build: "prod" = the tree as shipped, "san" = the Numba sanitizer build
  (numba.jit / numba.njit wrapped so that every bempp kernel is compiled with
  parallel=False, boundscheck=True and without fastmath);
* fixes the threading layer and thread ceiling, PYTHONHASHSEED, faulthandler;
* creates a private work directory under /verif/.work (removed at exit) and chdirs into it,
  because parts of bempp_cl (ExafmmInterface) create files in the current directory;
* optional stub packages (`exafmm`, `pyopencl`) are made importable on request.
"""

import atexit
import faulthandler
import os
import shutil
import sys

HERE = os.path.dirname(os.path.abspath(__file__))
VERIF = os.path.dirname(HERE)
REPO = os.path.abspath(os.environ.get("VERIF_REPO", "/repo"))

_STATE = {"booted": False, "build": None, "workdir": None}


def _install_sanitizer_build():
    """Wrap numba.jit / numba.njit: serial, bounds-checked, no fastmath."""
    os.environ["NUMBA_BOUNDSCHECK"] = "1"
    import numba

    real_jit = numba.jit
    real_njit = numba.njit
    counters = {"jit": 0, "njit": 0}

    def _force(kwargs):
        kwargs = dict(kwargs)
        kwargs["parallel"] = False
        kwargs["boundscheck"] = True
        kwargs.pop("fastmath", None)
        kwargs.pop("cache", None)
        return kwargs

    def san_jit(*args, **kwargs):
        counters["jit"] += 1
        return real_jit(*args, **_force(kwargs))

    def san_njit(*args, **kwargs):
        counters["njit"] += 1
        return real_njit(*args, **_force(kwargs))

    numba.jit = san_jit
    numba.njit = san_njit
    _STATE["san_counters"] = counters


def boot(build=None, stubs=(), threads=None, layer=None):
    """Prepare the process. Returns the work directory."""
    if _STATE["booted"]:
        return _STATE["workdir"]
    build = build or os.environ.get("VERIF_BUILD", "prod")
    assert build in ("prod", "san"), build
    os.environ.setdefault("PYTHONHASHSEED", "0")
    os.environ["NUMBA_THREADING_LAYER"] = layer or os.environ.get("VERIF_LAYER", "omp")
    os.environ.setdefault("NUMBA_NUM_THREADS", "16")
    os.environ.pop("NUMBA_CACHE_DIR", None)
    os.environ["NUMBA_DISABLE_PERFORMANCE_WARNINGS"] = "1"
    faulthandler.enable()

    if "bempp_cl" in sys.modules:
        raise RuntimeError("vlib.boot.boot() must run before bempp_cl is imported")

    # tree under test first
    if REPO in sys.path:
        sys.path.remove(REPO)
    sys.path.insert(0, REPO)
    deps = os.path.join(VERIF, ".deps")
    if os.path.isdir(deps) and deps not in sys.path:
        sys.path.append(deps)
    for stub in stubs:
        p = os.path.join(HERE, stub)
        assert os.path.isdir(p), p
        sys.path.insert(0, p)

    if build == "san":
        _install_sanitizer_build()

    workroot = os.path.join(VERIF, ".work")
    os.makedirs(workroot, exist_ok=True)
    workdir = os.path.join(workroot, "%s.%d" % (os.environ.get("VERIF_CHECK", "x"), os.getpid()))
    os.makedirs(workdir, exist_ok=True)
    os.chdir(workdir)
    _STATE["workdir"] = workdir
    atexit.register(cleanup)

    import warnings

    warnings.filterwarnings("ignore")
    import numpy as np

    np.seterr(all="ignore")

    import bempp_cl

    real = os.path.realpath(os.path.dirname(bempp_cl.__file__))
    want = os.path.realpath(os.path.join(REPO, "bempp_cl"))
    if real != want:
        raise RuntimeError("bempp_cl imported from %s, expected %s" % (real, want))

    import io
    import contextlib

    with contextlib.redirect_stdout(io.StringIO()):
        import bempp_cl.api  # prints a Gmsh notice

    import numba

    if threads:
        numba.set_num_threads(int(threads))

    _STATE.update(booted=True, build=build, workdir=workdir)
    return workdir


def cleanup():
    wd = _STATE.get("workdir")
    if wd and os.path.isdir(wd):
        try:
            os.chdir(VERIF)
        except OSError:
            pass
        shutil.rmtree(wd, ignore_errors=True)


def build():
    return _STATE["build"]


def san_counters():
    return _STATE.get("san_counters")
