"""Independent NumPy reference models.

Written from the mathematical definitions; nothing here imports numerical code from bempp_cl.
"""

import math
from fractions import Fraction

import numpy as np

# ----------------------------------------------------------------------------- exact integrals


def monomial_triangle_exact(a, b):
    """∫_T x^a y^b over the reference triangle (0,0),(1,0),(0,1), as a Fraction."""
    return Fraction(math.factorial(a) * math.factorial(b), math.factorial(a + b + 2))


def monomial_interval_exact(a):
    return Fraction(1, a + 1)


def frac_sum(weights, values):
    """Σ w_i v_i in exact rational arithmetic of the given floats (no rounding in the sum)."""
    s = Fraction(0)
    for w, v in zip(weights, values):
        s += Fraction(float(w)) * Fraction(float(v))
    return s


# ----------------------------------------------------------------------------- own quadrature

_LEG = {}


def gauss01(n):
    """Gauss-Legendre on [0,1] from numpy (independent of the library's tables)."""
    if n not in _LEG:
        x, w = np.polynomial.legendre.leggauss(n)
        _LEG[n] = (0.5 * (x + 1), 0.5 * w)
    return _LEG[n]


def triangle_rule(n):
    """Collapsed tensor Gauss rule on the reference triangle, exact for total degree <= 2n-2.

    Returns points (2, n*n), weights (n*n,) summing to 1/2."""
    x, w = gauss01(n)
    u, v = np.meshgrid(x, x, indexing="ij")
    wu, wv = np.meshgrid(w, w, indexing="ij")
    px = u.ravel()
    py = (v * (1 - u)).ravel()
    ww = (wu * wv * (1 - u)).ravel()
    return np.vstack([px, py]), ww


# ----------------------------------------------------------------------------- geometry


def affine_map(P):
    """P (3,3): columns are the triangle's vertices. Returns (origin, J (3,2), area, unit normal)."""
    P = np.asarray(P, float)
    J = np.column_stack([P[:, 1] - P[:, 0], P[:, 2] - P[:, 0]])
    nrm = np.cross(J[:, 0], J[:, 1])
    a2 = np.linalg.norm(nrm)
    return P[:, 0], J, 0.5 * a2, nrm / a2


def local_to_global(P, pts):
    o, J, _, _ = affine_map(P)
    return o[:, None] + J @ pts


def jac_inv_trans(J):
    """J (3,2) -> J (J^T J)^-1, the (pseudo-)inverse transposed."""
    return J @ np.linalg.inv(J.T @ J)


def circumdiameter(P):
    a = np.linalg.norm(P[:, 1] - P[:, 0])
    b = np.linalg.norm(P[:, 2] - P[:, 1])
    c = np.linalg.norm(P[:, 0] - P[:, 2])
    area = affine_map(P)[2]
    return a * b * c / (2 * area)


def solid_angle_sum(V, E, x):
    """Σ over triangles of the signed solid angle seen from x, divided by 4π (winding number).

    Van Oosterom–Strackee. +1 inside an outward-oriented closed surface, 0 outside."""
    x = np.asarray(x, float).reshape(3)
    a = V[:, E[0]].T - x
    b = V[:, E[1]].T - x
    c = V[:, E[2]].T - x
    la, lb, lc = (np.linalg.norm(t, axis=1) for t in (a, b, c))
    num = np.einsum("ij,ij->i", a, np.cross(b, c))
    den = la * lb * lc + np.einsum("ij,ij->i", a, b) * lc + np.einsum("ij,ij->i", b, c) * la + np.einsum("ij,ij->i", c, a) * lb
    return float(np.sum(2 * np.arctan2(num, den)) / (4 * np.pi))


def dist_point_triangles(V, E, x):
    """Lower bound-ish distance from x to the surface: min over triangles of exact point-triangle distance."""
    x = np.asarray(x, float).reshape(3)
    best = np.inf
    for e in range(E.shape[1]):
        best = min(best, _dist_point_tri(x, V[:, E[0, e]], V[:, E[1, e]], V[:, E[2, e]]))
    return best


def _dist_point_tri(p, a, b, c):
    # Ericson, Real-Time Collision Detection, closest point on triangle
    ab, ac, ap = b - a, c - a, p - a
    d1, d2 = ab @ ap, ac @ ap
    if d1 <= 0 and d2 <= 0:
        return np.linalg.norm(ap)
    bp = p - b
    d3, d4 = ab @ bp, ac @ bp
    if d3 >= 0 and d4 <= d3:
        return np.linalg.norm(bp)
    vc = d1 * d4 - d3 * d2
    if vc <= 0 and d1 >= 0 and d3 <= 0:
        v = d1 / (d1 - d3)
        return np.linalg.norm(p - (a + v * ab))
    cp = p - c
    d5, d6 = ab @ cp, ac @ cp
    if d6 >= 0 and d5 <= d6:
        return np.linalg.norm(cp)
    vb = d5 * d2 - d1 * d6
    if vb <= 0 and d2 >= 0 and d6 <= 0:
        w = d2 / (d2 - d6)
        return np.linalg.norm(p - (a + w * ac))
    va = d3 * d6 - d5 * d4
    if va <= 0 and (d4 - d3) >= 0 and (d5 - d6) >= 0:
        w = (d4 - d3) / ((d4 - d3) + (d5 - d6))
        return np.linalg.norm(p - (b + w * (c - b)))
    denom = 1.0 / (va + vb + vc)
    v, w = vb * denom, vc * denom
    return np.linalg.norm(p - (a + ab * v + ac * w))


# ----------------------------------------------------------------------------- analytic 1/R potential of a flat triangle


def triangle_potential_inv_r(Q, X):
    """∫_Q 1/|x-y| dS(y) for a flat triangle Q (3,3) at points X (3,N). Closed form (Wilton/Graglia)."""
    Q = np.asarray(Q, float)
    X = np.asarray(X, float).reshape(3, -1)
    _, _, _, n = affine_map(Q)
    h = n @ (X - Q[:, [0]])  # signed height (N,)
    rho = X - n[:, None] * h[None, :]
    ah = np.abs(h)
    out = np.zeros(X.shape[1])
    for i in range(3):
        pm = Q[:, i]
        pp = Q[:, (i + 1) % 3]
        L = np.linalg.norm(pp - pm)
        lhat = (pp - pm) / L
        uhat = np.cross(lhat, n)
        lp = lhat @ (pp[:, None] - rho)
        lm = lhat @ (pm[:, None] - rho)
        P0 = uhat @ (pp[:, None] - rho)
        R0sq = P0 ** 2 + h ** 2
        Rp = np.sqrt(R0sq + lp ** 2)
        Rm = np.sqrt(R0sq + lm ** 2)
        with np.errstate(divide="ignore", invalid="ignore"):
            # stable log term: ln((Rp+lp)/(Rm+lm)); when lm, lp < 0 use the reflected form
            f = np.where(lm + lp >= 0, np.log((Rp + lp) / (Rm + lm)), np.log((Rm - lm) / (Rp - lp)))
            t = np.arctan2(P0 * lp, R0sq + ah * Rp) - np.arctan2(P0 * lm, R0sq + ah * Rm)
        f = np.where(np.isfinite(f), f, 0.0)
        out += P0 * f - ah * t
    return out


def inv_dist_double_integral_coincident(P):
    """∫_T∫_T 1/|x-y| for a flat triangle, closed form: (4A²/3) Σ_i ln(s/(s-l_i))/l_i."""
    a = np.linalg.norm(P[:, 1] - P[:, 0])
    b = np.linalg.norm(P[:, 2] - P[:, 1])
    c = np.linalg.norm(P[:, 0] - P[:, 2])
    A = affine_map(P)[2]
    s = 0.5 * (a + b + c)
    return (4 * A * A / 3.0) * sum(math.log(s / (s - l)) / l for l in (a, b, c))


def inv_dist_double_integral(P, Q, shared, n=48, power=4):
    """Reference ∫_P∫_Q 1/|x-y| for triangles touching in an edge or a vertex.

    Inner integral analytic, outer integral by tensor Gauss in coordinates collapsed towards the
    shared entity with an algebraic grading t = tau**power.
    shared: ("edge", i0, i1) local indices of the shared vertices in P, or ("vertex", i)."""
    x1, w1 = gauss01(n)
    if shared[0] == "edge":
        i0, i1 = shared[1], shared[2]
        i2 = 3 - i0 - i1
        A, B, C = P[:, i0], P[:, i1], P[:, i2]
        s, tau = np.meshgrid(x1, x1, indexing="ij")
        ws, wt = np.meshgrid(w1, w1, indexing="ij")
        t = tau ** power
        dt = power * tau ** (power - 1)
        X = (1 - t)[None] * (A[:, None, None] + s[None] * (B - A)[:, None, None]) + t[None] * C[:, None, None]
        jac = 2 * affine_map(P)[2] * (1 - t) * dt
        W = (ws * wt * jac).ravel()
        X = X.reshape(3, -1)
    else:
        i0 = shared[1]
        A, B, C = P[:, i0], P[:, (i0 + 1) % 3], P[:, (i0 + 2) % 3]
        rho, s = np.meshgrid(x1, x1, indexing="ij")
        wr, ws = np.meshgrid(w1, w1, indexing="ij")
        r = rho ** power
        dr = power * rho ** (power - 1)
        X = A[:, None, None] + r[None] * ((1 - s)[None] * (B - A)[:, None, None] + s[None] * (C - A)[:, None, None])
        jac = 2 * affine_map(P)[2] * r * dr
        W = (wr * ws * jac).ravel()
        X = X.reshape(3, -1)
    U = triangle_potential_inv_r(Q, X)
    return float(W @ U)


# ----------------------------------------------------------------------------- Green's functions


def laplace_G(x, y):
    r = np.linalg.norm(x - y, axis=0)
    return 1.0 / (4 * np.pi * r)


def helmholtz_G(x, y, k):
    r = np.linalg.norm(x - y, axis=0)
    return np.exp(1j * k * r) / (4 * np.pi * r)


def green(x, y, k=0.0):
    """G_k(x,y) = exp(ikr)/(4πr); k = 0 Laplace; k = i·ω modified Helmholtz."""
    r = np.linalg.norm(x - y, axis=0)
    if k == 0:
        return 1.0 / (4 * np.pi * r)
    return np.exp(1j * k * r) / (4 * np.pi * r)


def green_grad_y(x, y, k=0.0):
    """∇_y G_k(x,y), shape (3, N)."""
    d = x - y
    r = np.linalg.norm(d, axis=0)
    if k == 0:
        return d / (4 * np.pi * r ** 3)
    return np.exp(1j * k * r) / (4 * np.pi * r ** 3) * (1 - 1j * k * r) * d


def green_grad_x(x, y, k=0.0):
    return -green_grad_y(x, y, k)


# ----------------------------------------------------------------------------- brute-force topology


def brute_edges(E):
    """Set of undirected edges {(a,b) a<b} and per-edge list of incident elements."""
    inc = {}
    for e in range(E.shape[1]):
        for a, b in ((0, 1), (1, 2), (2, 0)):
            k = (min(int(E[a, e]), int(E[b, e])), max(int(E[a, e]), int(E[b, e])))
            inc.setdefault(k, []).append(e)
    return inc


def brute_shared(E, i, j):
    """List of (li, lj) with E[li,i] == E[lj,j]."""
    out = []
    for li in range(3):
        for lj in range(3):
            if E[li, i] == E[lj, j]:
                out.append((li, lj))
    return out


def brute_adjacency(E):
    """Dict with 'edge': {(i,j): [(li,lj),(li',lj')]}, 'vertex': {(i,j): (li,lj)} for ordered pairs i!=j."""
    ne = E.shape[1]
    byv = {}
    for e in range(ne):
        for l in range(3):
            byv.setdefault(int(E[l, e]), set()).add(e)
    cand = set()
    for s in byv.values():
        for i in s:
            for j in s:
                if i != j:
                    cand.add((i, j))
    edge, vertex = {}, {}
    for i, j in cand:
        sh = brute_shared(E, i, j)
        if len(sh) == 1:
            vertex[(i, j)] = sh[0]
        elif len(sh) == 2:
            edge[(i, j)] = sh
        # 3 shared vertices = duplicate element (same vertex set): neither
    return {"edge": edge, "vertex": vertex}


# ----------------------------------------------------------------------------- reference shape functions


def shape_p0(pts):
    return np.ones((1, 1, pts.shape[1]))


def shape_p1(pts):
    return np.array([[1 - pts[0] - pts[1], pts[0], pts[1]]])


def shape_p1_grad():
    return np.array([[-1.0, -1.0], [1.0, 0.0], [0.0, 1.0]])  # (fun, d/dxi)


def shape_rwg_ref(pts):
    """Reference RWG/Raviart-Thomas functions as used by Bempp: (2, 3, N).

    f0 = (x, y-1), f1 = (x-1, y), f2 = (x, y); edge i of Bempp ordering: e0=(v0,v1), e1=(v2,v0), e2=(v1,v2)."""
    x, y = pts[0], pts[1]
    return np.array([[x, x - 1, x], [y - 1, y, y]])


def shape_snc_ref(pts):
    """Reference SNC (rotated) functions: (2, 3, N)."""
    x, y = pts[0], pts[1]
    return np.array([[1 - y, -y, -y], [x, x - 1, x]])
