// Driver of the host-compiled OpenCL C translation units of C20 (one executable per precision).
//
//   c20_p<P> <case-file> <result-file> [fid ...]
//
// case file   : int32 magic 0x43323043, int32 nbatches, then per batch
//               int32 fid, int32 ncalls, int32 nparams, REAL params[nparams], REAL in[ncalls * n_in(fid)]
// result file : per executed batch  REAL out[ncalls * n_out(fid)]   (batches in file order)
// optional fid list: only batches of these functions are executed (used to attribute a sanitizer report).
//
// Whenever the function changes "C20-BEGIN <fid> <name>" goes to stderr, so that the last marker before an ASan/UBSan
// abort names the function.  Inputs, parameters and outputs of every call live in exact-size heap blocks:
// a wrapper or kernel that reads or writes past them is an ASan report.  `--list` prints the table.
#include <cstdint>
#include <cstdio>
#include <cstdlib>
#include <cstring>
#include <vector>

#if PRECISION == 0
typedef float REAL;
#else
typedef double REAL;
#endif

#define X(sym, nin, nout, hasparams) extern "C" void sym(const REAL *, REAL *, REAL *);
#include "table.inc"
#undef X

struct Entry {
    const char *name;
    void (*fn)(const REAL *, REAL *, REAL *);
    int n_in, n_out, has_params;
};

static const Entry TABLE[] = {
#define X(sym, nin, nout, hasparams) {#sym, sym, nin, nout, hasparams},
#include "table.inc"
#undef X
};
static const int NTABLE = sizeof(TABLE) / sizeof(TABLE[0]);

static void die(const char *msg)
{
    fprintf(stderr, "C20-DRIVER-ERROR %s\n", msg);
    exit(3);
}

template <class T> static void rd(FILE *f, T *p, size_t n)
{
    if (n && fread(p, sizeof(T), n, f) != n) die("short read");
}

int main(int argc, char **argv)
{
    if (argc >= 2 && !strcmp(argv[1], "--list")) {
        for (int i = 0; i < NTABLE; ++i) printf("%d %s %d %d %d\n", i, TABLE[i].name, TABLE[i].n_in, TABLE[i].n_out, TABLE[i].has_params);
        return 0;
    }
    if (argc < 3) die("usage");
    FILE *fi = fopen(argv[1], "rb");
    if (!fi) die("cannot open case file");
    FILE *fo = fopen(argv[2], "wb");
    if (!fo) die("cannot open result file");
    std::vector<int> only;
    for (int i = 3; i < argc; ++i) only.push_back(atoi(argv[i]));

    int32_t head[2];
    rd(fi, head, 2);
    if (head[0] != 0x43323043) die("bad magic");
    long executed = 0;
    int last_fid = -1;
    for (int b = 0; b < head[1]; ++b) {
        int32_t bh[3];
        rd(fi, bh, 3);
        int fid = bh[0], ncalls = bh[1], nparams = bh[2];
        if (fid < 0 || fid >= NTABLE || ncalls < 0 || nparams < 0) die("bad batch header");
        const Entry &e = TABLE[fid];
        REAL *params = (REAL *)malloc(sizeof(REAL) * (size_t)nparams);
        rd(fi, params, nparams);
        bool run = only.empty();
        for (size_t i = 0; i < only.size(); ++i) run = run || only[i] == fid;
        if (!run) {
            if (fseek(fi, (long)sizeof(REAL) * ncalls * e.n_in, SEEK_CUR)) die("seek");
            free(params);
            continue;
        }
        if (fid != last_fid) {
            fprintf(stderr, "C20-BEGIN %d %s\n", fid, e.name);
            fflush(stderr);
            last_fid = fid;
        }
        REAL *in = (REAL *)malloc(sizeof(REAL) * (size_t)e.n_in);
        REAL *out = (REAL *)malloc(sizeof(REAL) * (size_t)e.n_out);
        for (int c = 0; c < ncalls; ++c) {
            rd(fi, in, e.n_in);
            e.fn(in, params, out);
            if (fwrite(out, sizeof(REAL), e.n_out, fo) != (size_t)e.n_out) die("short write");
            ++executed;
        }
        free(in);
        free(out);
        free(params);
    }
    fclose(fi);
    if (fclose(fo)) die("close");
    fprintf(stderr, "C20-DONE %ld\n", executed);
    return 0;
}
