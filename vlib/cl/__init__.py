"""Host-compiled OpenCL C harness for C20 (clang -x cl + ASan/UBSan)."""
