// OpenCL C builtin functions for the host-compiled translation unit of C20.
//
// The OpenCL front end of clang leaves the overloadable builtins (sqrt, rsqrt, cos, ... on scalars and on
// 2/3/4/8/16-wide vectors) as undefined Itanium-mangled symbols (`_Z3cosDv4_d`, `_Z8distanceDv3_fS_`, ...).
// C++ functions on ext_vector_type vectors mangle to the same names; same compiler + same -mavx2, so the
// vector ABI agrees.  Everything is computed element by element with the correctly typed libm function
// (float builtins in float, double builtins in double): the shims add at most the libm rounding (< 1 ulp).
//
// No header is included on purpose (a <cmath> declaration of ::cos(double) would be extern "C").

typedef float float2 __attribute__((ext_vector_type(2)));
typedef float float3 __attribute__((ext_vector_type(3)));
typedef float float4 __attribute__((ext_vector_type(4)));
typedef float float8 __attribute__((ext_vector_type(8)));
typedef float float16 __attribute__((ext_vector_type(16)));
typedef double double2 __attribute__((ext_vector_type(2)));
typedef double double3 __attribute__((ext_vector_type(3)));
typedef double double4 __attribute__((ext_vector_type(4)));
typedef double double8 __attribute__((ext_vector_type(8)));
typedef double double16 __attribute__((ext_vector_type(16)));

// ---------------------------------------------------------------- scalar primitives
#define S1(name, fexpr, dexpr)                      \
    float name(float x) { return fexpr; }           \
    double name(double x) { return dexpr; }

S1(sqrt, __builtin_sqrtf(x), __builtin_sqrt(x))
S1(rsqrt, 1.0f / __builtin_sqrtf(x), 1.0 / __builtin_sqrt(x))
S1(cos, __builtin_cosf(x), __builtin_cos(x))
S1(sin, __builtin_sinf(x), __builtin_sin(x))
S1(tan, __builtin_tanf(x), __builtin_tan(x))
S1(exp, __builtin_expf(x), __builtin_exp(x))
S1(exp2, __builtin_exp2f(x), __builtin_exp2(x))
S1(log, __builtin_logf(x), __builtin_log(x))
S1(log2, __builtin_log2f(x), __builtin_log2(x))
S1(fabs, __builtin_fabsf(x), __builtin_fabs(x))
S1(native_sqrt, __builtin_sqrtf(x), __builtin_sqrt(x))
S1(native_rsqrt, 1.0f / __builtin_sqrtf(x), 1.0 / __builtin_sqrt(x))
S1(native_cos, __builtin_cosf(x), __builtin_cos(x))
S1(native_sin, __builtin_sinf(x), __builtin_sin(x))
S1(native_exp, __builtin_expf(x), __builtin_exp(x))
S1(native_recip, 1.0f / x, 1.0 / x)
S1(half_sqrt, __builtin_sqrtf(x), __builtin_sqrt(x))
S1(half_rsqrt, 1.0f / __builtin_sqrtf(x), 1.0 / __builtin_sqrt(x))
S1(half_cos, __builtin_cosf(x), __builtin_cos(x))
S1(half_sin, __builtin_sinf(x), __builtin_sin(x))
S1(half_exp, __builtin_expf(x), __builtin_exp(x))

#define S2(name, fexpr, dexpr)                           \
    float name(float x, float y) { return fexpr; }       \
    double name(double x, double y) { return dexpr; }

S2(pow, __builtin_powf(x, y), __builtin_pow(x, y))
S2(fmin, __builtin_fminf(x, y), __builtin_fmin(x, y))
S2(fmax, __builtin_fmaxf(x, y), __builtin_fmax(x, y))
S2(fmod, __builtin_fmodf(x, y), __builtin_fmod(x, y))
S2(atan2, __builtin_atan2f(x, y), __builtin_atan2(x, y))
S2(native_divide, x / y, x / y)

#define S3(name, fexpr, dexpr)                                      \
    float name(float x, float y, float z) { return fexpr; }         \
    double name(double x, double y, double z) { return dexpr; }

S3(fma, __builtin_fmaf(x, y, z), __builtin_fma(x, y, z))
S3(mad, x * y + z, x * y + z)

// ---------------------------------------------------------------- element-wise vector versions
#define V1T(name, T, n)                                  \
    T name(T x)                                          \
    {                                                    \
        T r;                                             \
        for (int i = 0; i < n; ++i) r[i] = name(x[i]);   \
        return r;                                        \
    }
#define V2T(name, T, n)                                        \
    T name(T x, T y)                                           \
    {                                                          \
        T r;                                                   \
        for (int i = 0; i < n; ++i) r[i] = name(x[i], y[i]);   \
        return r;                                              \
    }
#define V3T(name, T, n)                                              \
    T name(T x, T y, T z)                                            \
    {                                                                \
        T r;                                                         \
        for (int i = 0; i < n; ++i) r[i] = name(x[i], y[i], z[i]);   \
        return r;                                                    \
    }
#define ALLW(M, name)                                                                                  \
    M(name, float2, 2) M(name, float3, 3) M(name, float4, 4) M(name, float8, 8) M(name, float16, 16)   \
    M(name, double2, 2) M(name, double3, 3) M(name, double4, 4) M(name, double8, 8) M(name, double16, 16)

ALLW(V1T, sqrt) ALLW(V1T, rsqrt) ALLW(V1T, cos) ALLW(V1T, sin) ALLW(V1T, tan) ALLW(V1T, exp) ALLW(V1T, exp2)
ALLW(V1T, log) ALLW(V1T, log2) ALLW(V1T, fabs)
ALLW(V1T, native_sqrt) ALLW(V1T, native_rsqrt) ALLW(V1T, native_cos) ALLW(V1T, native_sin) ALLW(V1T, native_exp)
ALLW(V1T, native_recip)
ALLW(V1T, half_sqrt) ALLW(V1T, half_rsqrt) ALLW(V1T, half_cos) ALLW(V1T, half_sin) ALLW(V1T, half_exp)
ALLW(V2T, pow) ALLW(V2T, fmin) ALLW(V2T, fmax) ALLW(V2T, fmod) ALLW(V2T, atan2) ALLW(V2T, native_divide)
ALLW(V3T, fma) ALLW(V3T, mad)

// ---------------------------------------------------------------- geometric builtins
// dot: sum in lane order, in the type; length = sqrt(dot(p, p)); distance = length(p0 - p1)   (OpenCL 1.2 §6.12.5)
#define GEO(T, S, n, SQRT)                                    \
    S dot(T a, T b)                                           \
    {                                                         \
        S s = a[0] * b[0];                                    \
        for (int i = 1; i < n; ++i) s += a[i] * b[i];         \
        return s;                                             \
    }                                                         \
    S length(T a) { return SQRT(dot(a, a)); }                 \
    S distance(T a, T b) { return length(a - b); }            \
    S fast_length(T a) { return SQRT(dot(a, a)); }            \
    S fast_distance(T a, T b) { return length(a - b); }       \
    T normalize(T a) { return a / length(a); }

GEO(float2, float, 2, __builtin_sqrtf)
GEO(float3, float, 3, __builtin_sqrtf)
GEO(float4, float, 4, __builtin_sqrtf)
GEO(double2, double, 2, __builtin_sqrt)
GEO(double3, double, 3, __builtin_sqrt)
GEO(double4, double, 4, __builtin_sqrt)

float dot(float a, float b) { return a * b; }
double dot(double a, double b) { return a * b; }
float length(float a) { return __builtin_fabsf(a); }
double length(double a) { return __builtin_fabs(a); }
float distance(float a, float b) { return __builtin_fabsf(a - b); }
double distance(double a, double b) { return __builtin_fabs(a - b); }

#define CROSS(T)                                                                                     \
    T cross(T a, T b)                                                                                \
    {                                                                                                \
        T r = (T)(0);                                                                                \
        r[0] = a[1] * b[2] - a[2] * b[1];                                                            \
        r[1] = a[2] * b[0] - a[0] * b[2];                                                            \
        r[2] = a[0] * b[1] - a[1] * b[0];                                                            \
        return r;                                                                                    \
    }
CROSS(float3) CROSS(float4) CROSS(double3) CROSS(double4)
