"""Parse the function signatures of the OpenCL headers of bempp-cl and generate an OpenCL C
translation unit with one externally callable wrapper per function.

Nothing here knows a kernel *name*: what can be wrapped is decided from the signature alone.

Wrapper ABI (all pointers are plain arrays of REALTYPE, the driver sees `const REAL*, REAL*, REAL*`):

    void w_<name>(__global const REALTYPE *in, __global REALTYPE *params, __global REALTYPE *out)

`in` holds the inputs in argument order.  A by-value vector of width n takes n scalars; an array
`T name[d]` of vectors of width n takes d*n scalars, laid out [d][lane].  Outputs likewise, [d0][d1][lane].
Vectors are filled and read lane by lane with OpenCL's own component accessors (.x/.y/.z, .s0 ... .sf);
the wrappers never use the library's VEC_ELEMENT macro.  Every output lane is preset to NAN, so a kernel
that forgets a component is seen by the comparison.  `params` is passed through untouched: it is an
exact-size heap block in the driver, so an out-of-range kernel_parameters[i] is an ASan report.
"""

import os
import re

SOURCES = ("kernels.h", "p0_discontinuous_shapeset.h", "p1_discontinuous_shapeset.h", "rwg0_shapeset.h", "snc0_shapeset.h")
VEC_LENGTHS = (1, 4, 8, 16)
MAIN_VEC_LENGTH = 4  # VEC_LENGTH of the main translation unit (decides REALTYPEVEC there)

_SPACES = ("__global", "global", "__private", "private", "__local", "local", "__constant", "constant")


def _strip_comments(text):
    def repl(m):
        return re.sub(r"[^\n]", " ", m.group(0))

    text = re.sub(r"/\*.*?\*/", repl, text, flags=re.S)
    text = re.sub(r"//[^\n]*", repl, text)
    return text


def _conditions_by_line(lines):
    """For every line the stack of preprocessor conditions that enclose it (include guards dropped)."""
    stack = []
    out = []
    for i, ln in enumerate(lines):
        s = ln.strip()
        m = re.match(r"#\s*(ifdef|ifndef|if|elif|else|endif)\b(.*)", s)
        if m:
            kind, rest = m.group(1), m.group(2).strip()
            if kind in ("ifdef", "ifndef", "if"):
                guard = False
                if kind == "ifndef":
                    # include guard: the macro is defined on the next non-blank line
                    for j in range(i + 1, min(i + 4, len(lines))):
                        t = lines[j].strip()
                        if not t:
                            continue
                        guard = bool(re.match(r"#\s*define\s+%s\b" % re.escape(rest), t))
                        break
                stack.append(None if guard else "%s %s" % (kind, rest))
            elif kind in ("elif", "else"):
                if stack:
                    prev = stack.pop()
                    stack.append("%s %s (after %s)" % (kind, rest, prev))
            elif kind == "endif":
                if stack:
                    stack.pop()
        out.append([c for c in stack if c is not None])
    return out


def _parse_arg(text):
    """'const REALTYPE4 trialGlobalPoint[3]' -> dict"""
    t = text.strip()
    dims = [d.strip() for d in re.findall(r"\[([^\]]*)\]", t)]
    t = re.sub(r"\[[^\]]*\]", "", t).strip()
    ptr = t.count("*")
    t = t.replace("*", " ")
    toks = t.split()
    name = toks[-1]
    quals = toks[:-1]
    const = "const" in quals
    space = None
    for q in quals:
        if q in _SPACES:
            space = q.strip("_")
    base = [q for q in quals if q != "const" and q not in _SPACES]
    arg = {"text": " ".join(text.split()), "name": name, "const": const, "space": space, "ptr": ptr, "dims_text": dims,
           "type": " ".join(base)}
    return arg


def parse_header(path):
    """All function definitions of one header: name, line, return type, args, body, enclosing conditions."""
    with open(path) as f:
        raw = f.read()
    text = _strip_comments(raw)
    lines = text.split("\n")
    conds = _conditions_by_line(lines)
    funcs = []
    for m in re.finditer(r"(?m)^[ \t]*((?:static\s+|inline\s+|__kernel\s+|kernel\s+)*)([A-Za-z_]\w*(?:\s*\*)?)\s+([A-Za-z_]\w*)\s*\(([^()]*)\)\s*\{", text):
        quals, ret, name, args = m.group(1), m.group(2), m.group(3), m.group(4)
        if ret in ("if", "while", "for", "switch", "return", "else", "define"):
            continue
        # body by brace matching
        depth = 0
        j = m.end() - 1
        while j < len(text):
            if text[j] == "{":
                depth += 1
            elif text[j] == "}":
                depth -= 1
                if depth == 0:
                    break
            j += 1
        body = text[m.end():j]
        line = text.count("\n", 0, m.start(3)) + 1
        arglist = [a for a in (x.strip() for x in args.split(",")) if a and a != "void"]
        funcs.append({
            "name": name,
            "file": os.path.basename(path),
            "line": line,
            "ret": ret,
            "quals": quals.split(),
            "args": [_parse_arg(a) for a in arglist],
            "body": body,
            "conds": conds[line - 1],
        })
    return funcs


def _width(tname, vec_length):
    """REALTYPE -> 1, REALTYPE4 -> 4, REALTYPEVEC -> vec_length; None if not a REALTYPE type."""
    if tname == "REALTYPEVEC":
        return vec_length
    m = re.match(r"REALTYPE(\d*)$", tname)
    if not m:
        return None
    w = int(m.group(1)) if m.group(1) else 1
    return w if w in (1, 2, 3, 4, 8, 16) else None


def _const_int(expr):
    if not re.match(r"^[\d\s+*\-()]+$", expr):
        return None
    try:
        return int(eval(expr, {"__builtins__": {}}, {}))  # digits and + - * ( ) only
    except Exception:  # noqa: BLE001
        return None


def _out_count_from_body(name, body):
    """Number of objects written through the pointer `name`: 1 for `*name = `, max constant index + 1 otherwise."""
    idx = []
    for m in re.finditer(r"\b%s\s*\[([^\]]+)\]" % re.escape(name), body):
        v = _const_int(m.group(1))
        if v is None:
            return None, "non-constant index %s[%s]" % (name, m.group(1).strip())
        idx.append(v)
    deref = re.search(r"\*\s*%s\b" % re.escape(name), body) is not None
    if not idx and not deref:
        return None, "output pointer %s never written" % name
    return (max(idx) + 1 if idx else 1), None


def uses_vec_length(func):
    return any(a["type"] == "REALTYPEVEC" for a in func["args"]) or any("REALTYPEVEC" in c for c in func["conds"])


def plan(func, vec_length):
    """Decide how to call `func` in a translation unit compiled with VEC_LENGTH=vec_length.

    Returns (spec, None) or (None, reason)."""
    if func["ret"] != "void":
        return None, "return type %s (only void functions with output pointers are wrapped)" % func["ret"]
    for c in func["conds"]:
        if c.strip() not in ("ifdef REALTYPEVEC",):
            return None, "enclosed by preprocessor condition '%s'" % c
    ins, outs, params = [], [], None
    order = []
    for a in func["args"]:
        w = _width(a["type"], vec_length)
        if w is None:
            return None, "argument '%s': unsupported type" % a["text"]
        dims = []
        for d in a["dims_text"]:
            v = _const_int(d)
            if v is None:
                return None, "argument '%s': non-constant array bound" % a["text"]
            dims.append(v)
        if a["ptr"] > 1 or (a["ptr"] and dims):
            return None, "argument '%s': pointer depth" % a["text"]
        ent = {"name": a["name"], "width": w, "dims": dims, "ptr": bool(a["ptr"]), "text": a["text"]}
        if a["space"] == "global":
            if not a["ptr"] or w != 1 or params is not None:
                return None, "argument '%s': unsupported __global argument" % a["text"]
            params = ent
            order.append(("params", ent))
        elif a["const"] or not (a["ptr"] or dims):
            # input: by value, const array, or const pointer to one object
            ent["count"] = 1
            for d in dims:
                ent["count"] *= d
            ins.append(ent)
            order.append(("in", ent))
        else:
            if a["ptr"]:
                n, why = _out_count_from_body(a["name"], func["body"])
                if n is None:
                    return None, "argument '%s': %s" % (a["text"], why)
                ent["dims"] = [n]
                ent["from_body"] = True
            ent["count"] = 1
            for d in ent["dims"]:
                ent["count"] *= d
            outs.append(ent)
            order.append(("out", ent))
    if not outs:
        return None, "no output argument"
    n_in = sum(e["count"] * e["width"] for e in ins)
    n_out = sum(e["count"] * e["width"] for e in outs)
    return {"name": func["name"], "file": func["file"], "line": func["line"], "order": order, "ins": ins, "outs": outs,
            "has_params": params is not None, "n_in": n_in, "n_out": n_out, "vec_length": vec_length,
            "uses_vec_length": uses_vec_length(func)}, None


def _lanes(w):
    if w == 1:
        return [""]
    if w == 2:
        return [".x", ".y"]
    if w == 3:
        return [".x", ".y", ".z"]
    return [".s%x" % i for i in range(w)]


def _ctype(w):
    return "REALTYPE" if w == 1 else "REALTYPE%d" % w


def _decl(ent, var):
    t = _ctype(ent["width"])
    if ent["ptr"] and not ent.get("from_body") and not ent["dims"]:
        return "%s %s;" % (t, var)
    return "%s %s%s;" % (t, var, "".join("[%d]" % d for d in ent["dims"]))


def _elements(ent, var):
    """C expressions for every scalar of the object in flat layout order [dims...][lane]."""
    dims = ent["dims"]
    idxs = [[]]
    for d in dims:
        idxs = [i + [k] for i in idxs for k in range(d)]
    out = []
    for i in idxs:
        base = var + "".join("[%d]" % k for k in i)
        for lane in _lanes(ent["width"]):
            out.append(base + lane)
    return out


def wrapper_symbol(spec):
    if spec["uses_vec_length"]:
        return "w_%s__vl%d" % (spec["name"], spec["vec_length"])
    return "w_" + spec["name"]


def wrapper_source(spec):
    L = []
    L.append("void %s(__global const REALTYPE *in, __global REALTYPE *params, __global REALTYPE *out)" % wrapper_symbol(spec))
    L.append("{")
    pos = 0
    call = []
    k = 0
    post = []
    opos = 0
    for kind, ent in spec["order"]:
        var = "a%d" % k
        k += 1
        if kind == "params":
            call.append("params")
            continue
        L.append("    " + _decl(ent, var))
        if kind == "in":
            for e in _elements(ent, var):
                L.append("    %s = in[%d];" % (e, pos))
                pos += 1
            if ent["ptr"] and not ent["dims"]:
                call.append("&" + var)
            else:
                call.append(var)
        else:
            for e in _elements(ent, var):
                L.append("    %s = NAN;" % e)
                post.append("    out[%d] = %s;" % (opos, e))
                opos += 1
            call.append(var)
    assert pos == spec["n_in"] and opos == spec["n_out"]
    L.append("    %s(%s);" % (spec["name"], ", ".join(call)))
    L.extend(post)
    L.append("}")
    return "\n".join(L)


def translation_unit(specs, note=""):
    L = ["/* generated by vlib/cl/gen.py -- %s */" % note,
         '#include "bempp_base_types.h"',
         '#include "kernels.h"',
         '#include "bempp_spaces.h"',
         ""]
    for s in specs:
        L.append("/* %s:%d  %s */" % (s["file"], s["line"], s["name"]))
        L.append(wrapper_source(s))
        L.append("")
    return "\n".join(L)


def table_inc(specs):
    return "\n".join("X(%s, %d, %d, %d)" % (wrapper_symbol(s), s["n_in"], s["n_out"], 1 if s["has_params"] else 0) for s in specs) + "\n"


def collect(include_dir):
    """Parse all headers. Returns (functions, units) where units maps a VEC_LENGTH to the list of specs
    compiled in the translation unit with that VEC_LENGTH, and every function carries 'instances'
    (list of specs) and 'unwrapped' (reason or None)."""
    funcs = []
    for src in SOURCES:
        p = os.path.join(include_dir, src)
        funcs.extend(parse_header(p))
    units = {v: [] for v in VEC_LENGTHS}
    for f in funcs:
        f["instances"] = []
        f["unwrapped"] = None
        vls = VEC_LENGTHS if uses_vec_length(f) else (MAIN_VEC_LENGTH,)
        for vl in vls:
            spec, why = plan(f, vl)
            if spec is None:
                f["unwrapped"] = why
                break
            f["instances"].append(spec)
            units[vl].append(spec)
    return funcs, units
