"""Build and run the host-compiled OpenCL C harness.

Everything is rebuilt on every run from the CURRENT headers of the tree under test
(<repo>/bempp_cl/core/sources/include) into /verif/.build/C20.<pid>/ (git-ignored, removed at exit).

clang invocation (probed end to end, see DESIGN.md C20):
    clang -x cl -cl-std=CL1.2 -Xclang -finclude-default-header -target x86_64-unknown-linux-gnu
          -DPRECISION={0,1} -DVEC_LENGTH={1,4,8,16} -Dinline=static -mavx2 -O0 -g
          -fsanitize=address,undefined -fno-sanitize-recover=all -I<include>
-O0: no inlining / SROA before the ASan pass, so an out-of-range access through `REALTYPE* result` or
`kernel_parameters[i]` is still a real load/store when ASan instruments it.  -Dinline=static does not touch
the sources (C99 `inline` without `static` emits no out-of-line definition).  The include directory and
-DPRECISION are the ones `bempp_cl.core.opencl_kernels.get_kernel_compile_options` passes.
"""

import atexit
import os
import re
import shutil
import subprocess
import time
from concurrent.futures import ThreadPoolExecutor

import numpy as np

from . import gen

HERE = os.path.dirname(os.path.abspath(__file__))
VERIF = os.path.dirname(os.path.dirname(HERE))
CLANG = os.environ.get("VERIF_CLANG", "clang")
CLANGXX = os.environ.get("VERIF_CLANGXX", "clang++")

COMMON = ["-target", "x86_64-unknown-linux-gnu", "-mavx2", "-Wno-psabi", "-g",
          "-fsanitize=address,undefined", "-fno-sanitize-recover=all"]
CL_FLAGS = ["-x", "cl", "-cl-std=CL1.2", "-Xclang", "-finclude-default-header", "-Dinline=static", "-O0"]
MAGIC = 0x43323043
PRECISIONS = {"single": (0, np.float32), "double": (1, np.float64)}


class BuildError(Exception):
    def __init__(self, stage, cmd, log):
        Exception.__init__(self, "%s failed" % stage)
        self.stage = stage
        self.cmd = cmd
        self.log = log


def _run(stage, cmd, cwd):
    p = subprocess.run(cmd, cwd=cwd, stdout=subprocess.PIPE, stderr=subprocess.STDOUT, timeout=600)
    out = p.stdout.decode("utf-8", "replace")
    if p.returncode != 0:
        raise BuildError(stage, " ".join(cmd), out[-6000:])
    return out


def classify_report(rc, stderr):
    """Stable key for a sanitizer report / abnormal exit: ('asan:stack-buffer-overflow', first lines)."""
    m = re.search(r"ERROR: AddressSanitizer: ([A-Za-z0-9_\-]+)", stderr)
    if m:
        i = stderr.find("ERROR: AddressSanitizer")
        return "asan:" + m.group(1), stderr[i:i + 1500]
    m = re.search(r"([^\s:]+:\d+:\d+): runtime error: ([^\n]*)", stderr)
    if m:
        words = re.sub(r"-?\d+(\.\d+)?(e[+-]?\d+)?", "N", m.group(2)).split()
        key = "_".join(words[:5])
        key = re.sub(r"[^A-Za-z0-9_]", "", key)
        return "ubsan:" + key, m.group(0)[:600]
    m = re.search(r"C20-DRIVER-ERROR ([^\n]*)", stderr)
    if m:
        return "driver:" + m.group(1).replace(" ", "_"), m.group(0)
    if rc is not None and rc < 0:
        return "signal:%d" % (-rc), stderr[-800:]
    return "exit:%s" % rc, stderr[-800:]


class Harness:
    def __init__(self, repo_root, tag="C20", keep=None):
        self.repo = repo_root
        self.include = os.path.join(repo_root, "bempp_cl", "core", "sources", "include")
        self.dir = os.path.join(VERIF, ".build", "%s.%d" % (tag, os.getpid()))
        self.keep = bool(os.environ.get("VERIF_KEEP_BUILD")) if keep is None else keep
        self.funcs = None
        self.units = None
        self.table = []  # specs in fid order
        self.exe = {}
        self.build_s = None
        self.commands = []

    # ------------------------------------------------------------------ generate
    def generate(self):
        if os.path.isdir(self.dir):
            shutil.rmtree(self.dir)
        self._sweep_stale()
        os.makedirs(self.dir)
        if not self.keep:
            atexit.register(self.cleanup)
        self.funcs, self.units = gen.collect(self.include)
        self.table = []
        for vl in gen.VEC_LENGTHS:
            specs = self.units[vl]
            with open(os.path.join(self.dir, "tu_vl%d.cl" % vl), "w") as f:
                f.write(gen.translation_unit(specs, "VEC_LENGTH=%d, %d wrappers" % (vl, len(specs))))
            for s in specs:
                s["fid"] = len(self.table)
                s["symbol"] = gen.wrapper_symbol(s)
                self.table.append(s)
        with open(os.path.join(self.dir, "table.inc"), "w") as f:
            f.write(gen.table_inc(self.table))
        return self.funcs

    def _sweep_stale(self):
        """Remove build directories of processes that no longer exist (a killed run cannot clean up)."""
        root = os.path.dirname(self.dir)
        if not os.path.isdir(root):
            return
        for name in os.listdir(root):
            m = re.match(r"C20\.(\d+)$", name)
            if not m:
                continue
            try:
                os.kill(int(m.group(1)), 0)
            except ProcessLookupError:
                shutil.rmtree(os.path.join(root, name), ignore_errors=True)
            except OSError:
                pass

    # ------------------------------------------------------------------ build
    def build(self, precisions=("single", "double"), workers=8):
        t0 = time.time()
        d = self.dir
        jobs = [("shims", [CLANGXX] + COMMON + ["-O1", "-ffp-contract=off", "-c", os.path.join(HERE, "shims.cpp"), "-o", "shims.o"])]
        for prec in precisions:
            P = PRECISIONS[prec][0]
            for vl in gen.VEC_LENGTHS:
                if not self.units[vl]:
                    continue
                jobs.append(("opencl-c p%d vl%d" % (P, vl),
                             [CLANG] + CL_FLAGS + COMMON + ["-DPRECISION=%d" % P, "-DVEC_LENGTH=%d" % vl, "-I", self.include,
                                                            "-c", "tu_vl%d.cl" % vl, "-o", "tu_vl%d_p%d.o" % (vl, P)]))
            jobs.append(("driver p%d" % P, [CLANGXX] + COMMON + ["-O1", "-DPRECISION=%d" % P, "-I", d, "-c",
                                                                  os.path.join(HERE, "driver.cpp"), "-o", "driver_p%d.o" % P]))
        self.commands = [" ".join(c) for _, c in jobs]
        with ThreadPoolExecutor(max_workers=workers) as ex:
            futs = [ex.submit(_run, st, cmd, d) for st, cmd in jobs]
            errs = []
            for f in futs:
                try:
                    f.result()
                except BuildError as e:
                    errs.append(e)
            if errs:
                raise errs[0]
        for prec in precisions:
            P = PRECISIONS[prec][0]
            objs = ["driver_p%d.o" % P] + ["tu_vl%d_p%d.o" % (vl, P) for vl in gen.VEC_LENGTHS if self.units[vl]] + ["shims.o"]
            exe = "c20_p%d" % P
            _run("link p%d" % P, [CLANGXX] + COMMON + objs + ["-lm", "-o", exe], d)
            self.exe[prec] = os.path.join(d, exe)
            # the table compiled into the driver must be the table this process holds
            listing = _run("list p%d" % P, [self.exe[prec], "--list"], d).strip().split("\n")
            want = ["%d %s %d %d %d" % (s["fid"], s["symbol"], s["n_in"], s["n_out"], 1 if s["has_params"] else 0) for s in self.table]
            if listing != want:
                raise BuildError("table check p%d" % P, exe + " --list", "driver table differs from generator table")
        self.build_s = time.time() - t0
        return self.build_s

    # ------------------------------------------------------------------ run
    def write_cases(self, path, prec, batches):
        dt = PRECISIONS[prec][1]
        parts = [np.array([MAGIC, len(batches)], dtype="<i4").tobytes()]
        for fid, params, ins in batches:
            s = self.table[fid]
            ins = np.ascontiguousarray(ins, dtype=dt)
            assert ins.ndim == 2 and ins.shape[1] == s["n_in"], (s["symbol"], ins.shape, s["n_in"])
            params = np.ascontiguousarray(params, dtype=dt).ravel()
            parts.append(np.array([fid, ins.shape[0], params.size], dtype="<i4").tobytes())
            parts.append(params.tobytes())
            parts.append(ins.tobytes())
        with open(path, "wb") as f:
            f.write(b"".join(parts))

    def run(self, prec, batches, only=None, tag="run"):
        """Execute the batches. Returns (rc, outputs or None, stderr). outputs[i] has shape (ncalls, n_out)."""
        dt = PRECISIONS[prec][1]
        cases = os.path.join(self.dir, "%s_%s.cases" % (tag, prec))
        res = os.path.join(self.dir, "%s_%s.res" % (tag, prec))
        self.write_cases(cases, prec, batches)
        env = dict(os.environ)
        env["ASAN_OPTIONS"] = "detect_leaks=1:abort_on_error=0:exitcode=23:detect_stack_use_after_return=1:strict_string_checks=1"
        env["UBSAN_OPTIONS"] = "print_stacktrace=1:halt_on_error=1:exitcode=24"
        cmd = [self.exe[prec], cases, res] + ([str(int(i)) for i in only] if only else [])
        p = subprocess.run(cmd, cwd=self.dir, env=env, stdout=subprocess.PIPE, stderr=subprocess.PIPE, timeout=1200)
        err = p.stderr.decode("utf-8", "replace")
        outs = None
        if p.returncode == 0:
            flat = np.fromfile(res, dtype=dt)
            outs = []
            pos = 0
            for fid, params, ins in batches:
                if only and fid not in only:
                    outs.append(None)
                    continue
                s = self.table[fid]
                n = ins.shape[0] * s["n_out"]
                outs.append(flat[pos:pos + n].reshape(ins.shape[0], s["n_out"]))
                pos += n
            if pos != flat.size:
                return 99, None, err + "\nC20-DRIVER-ERROR result size mismatch"
        for pth in (cases, res):
            try:
                os.remove(pth)
            except OSError:
                pass
        return p.returncode, outs, err

    def cleanup(self):
        shutil.rmtree(self.dir, ignore_errors=True)
        try:
            os.rmdir(os.path.dirname(self.dir))
        except OSError:
            pass
