#!/bin/bash
# Validate MANIFEST.json and every evidence file against the schemas (uses the tooling venv's jsonschema).
cd "$(dirname "$0")/.."
python3-vt - <<'PY'
import json, jsonschema, glob, sys
ok=True
m=json.load(open('MANIFEST.json')); jsonschema.validate(m, json.load(open('/root/.vp/MANIFEST.schema.json')))
es=json.load(open('/root/.vp/EVIDENCE.schema.json'))
for f in sorted(glob.glob('evidence/*.json')):
    try:
        jsonschema.validate(json.load(open(f)), es); print("ok", f)
    except Exception as e:
        ok=False; print("INVALID", f, str(e)[:300])
claimed={c['property_id'] for c in m['checks']}; na={c['property_id'] for c in m.get('not_applicable',[])}
ids=[json.loads(l)['id'] for l in open('properties.jsonl')]
assert claimed|na==set(ids) and not (claimed&na), (claimed, na)
sys.exit(0 if ok else 1)
PY
