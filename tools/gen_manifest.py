#!/venv/bin/python
"""Regenerate MANIFEST.json from the table below (kept in one place so it always validates)."""
import json, os, sys
HERE = os.path.dirname(os.path.dirname(os.path.abspath(__file__)))
sys.path.insert(0, HERE)
from tools.manifest_table import CHECKS, NOT_APPLICABLE  # noqa: E402

props = [json.loads(l) for l in open(os.path.join(HERE, "properties.jsonl"))]
ids = [p["id"] for p in props]
checks = []
for pid in ids:
    if pid not in CHECKS:
        continue
    c = CHECKS[pid]
    checks.append({
        "property_id": pid,
        "quick_cmd": "./run_check.sh %s quick" % pid,
        "thorough_cmd": "./run_check.sh %s thorough" % pid,
        "evidence_file": "/verif/evidence/%s.json" % pid,
        "replay_cmd_template": "./run_check.sh %s quick --replay {path}" % pid,
        "engine": "vlib",
        "level_claimed": {"category": c.get("category", "exploration"), "text": c["text"], "design_ref": "DESIGN.md §5 " + pid},
        "level_note": c["note"],
        "technique": c["technique"],
    })
na = [{"property_id": pid, "reason": NOT_APPLICABLE.get(pid, "check not built yet in this session (planned in DESIGN.md §5); not claimed until it exists")}
      for pid in ids if pid not in CHECKS]
doc = {
    "version": 1,
    "setup_cmd": "./setup.sh",
    "hooks": {
        "guard": "BEMPP_CL_VERIF",
        "enable": "no source hook is needed: all instrumentation is applied from /verif at import time (numba.jit wrapper, select_numba_kernels shim, constructor post-conditions); checks import /repo's working tree directly",
        "baseline_off_cmd": "cd /repo && /venv/bin/python -m pytest -ra -q -p no:cacheprovider --timeout=900 --continue-on-collection-errors",
        "source_commits": [],
        "add_only": True,
    },
    "engines": [{"name": "vlib", "path": "/verif/vlib", "serves_properties": [c["property_id"] for c in checks],
                 "kind_free_text": "runtime monitors + reference models + Numba sanitizer build (bounds-checked serial recompilation) + clang ASan/UBSan on the OpenCL sources"}],
    "checks": checks,
    "not_applicable": na,
    "notes": "All checks: exit 0 held / 1 violation / 2 inconclusive. Evidence is rewritten on every run. See DESIGN.md.",
}
json.dump(doc, open(os.path.join(HERE, "MANIFEST.json"), "w"), indent=1)
print("MANIFEST.json: %d checks, %d not_applicable" % (len(checks), len(na)))
