#!/bin/bash
# Confirm a seeded change delivered by an independent sub-agent and run the owning check against it.
#   tools/try_seeded.sh <deliver-dir> <ID> [name] [--skip-tests]
# <deliver-dir> holds patch.diff, demo.py, meta.json. Everything runs on a scratch copy of /repo under /var/tmp
# (removed afterwards); /repo itself is never touched. Results are written to /verif/seeded/<name>/.
HERE="$(cd "$(dirname "${BASH_SOURCE[0]}")/.." && pwd)"
export NUMBA_NUM_THREADS=4 OPENBLAS_NUM_THREADS=1 OMP_WAIT_POLICY=passive
DEL="$(readlink -f "$1")"; ID="$2"; NAME="${3:-$ID}"; SKIP="$4"
OUT="$HERE/seeded/$NAME"; mkdir -p "$OUT"
S="$(mktemp -d /var/tmp/verif-seed.XXXXXX)"
trap 'rm -rf "$S"' EXIT
rsync -a --exclude .git --exclude __pycache__ --exclude '*.pyc' /repo/ "$S/repo/"
cp "$DEL/patch.diff" "$OUT/patch.diff"; cp "$DEL/demo.py" "$OUT/demo.py"; cp "$DEL/meta.json" "$OUT/meta.agent.json" 2>/dev/null
cd "$S/repo" && git init -q . 2>/dev/null
echo "== demo on the unchanged copy"
( cd "$S/repo" && PYTHONPATH="$S/repo" timeout 900 /venv/bin/python "$OUT/demo.py" > "$S/demo0.log" 2>&1 ); RC0=$?
git apply --whitespace=nowarn "$OUT/patch.diff" || { echo "PATCH-DOES-NOT-APPLY"; exit 3; }
echo "== demo on the changed copy"
( cd "$S/repo" && PYTHONPATH="$S/repo" timeout 900 /venv/bin/python "$OUT/demo.py" > "$S/demo1.log" 2>&1 ); RC1=$?
echo "demo exit: unchanged=$RC0 changed=$RC1"
TESTS="skipped"
if [ "$SKIP" != "--skip-tests" ]; then
  echo "== the 53 baseline tests on the changed copy"
  IDS=$(/venv/bin/python - <<'PY'
import json
b=json.load(open('/root/.vp/BASELINE.json'))
print(" ".join('"'+t.split('::',1)[0].replace('.','/')+'.py::'+t.split('::',1)[1]+'"' for t in b['stable_pass']))
PY
)
  ( cd "$S/repo" && eval PYTHONPATH="$S/repo" timeout 3400 /venv/bin/python -m pytest -q -p no:cacheprovider $IDS > "$S/tests.log" 2>&1 )
  TESTS="$(tail -1 "$S/tests.log")"
  echo "tests: $TESTS"
fi
echo "== owning check $ID (quick) against the changed copy"
VERIF_REPO="$S/repo" timeout 3000 "$HERE/run_check.sh" "$ID" quick > "$S/check.log" 2>&1; RCC=$?
grep -E "^(VIOLATION|KNOWN-FINDING|INCONCLUSIVE|RESULT)" "$S/check.log" | head -5
grep -E "^  mechanism" "$S/check.log" | cut -c1-260 | head -4
MECHS="$(grep -E '^  mechanism' "$S/check.log" | sed 's/^  mechanism=\([^ ]*\).*/\1/' | sort -u | head -12 | tr '\n' ' ')"
/venv/bin/python - "$OUT" "$ID" "$RC0" "$RC1" "$TESTS" "$RCC" "$MECHS" "$DEL" <<'PY'
import json, sys, os
out, pid, rc0, rc1, tests, rcc, mechs, deliv = sys.argv[1:9]
agent = {}
try:
    agent = json.load(open(os.path.join(out, "meta.agent.json")))
except Exception:
    pass
meta = {"property": pid, "summary": agent.get("summary"), "needs_to_manifest": agent.get("needs_to_manifest"), "files": agent.get("files"),
        "confirmed_by_builder": {"demo_exit_unchanged_tree": int(rc0), "demo_exit_changed_tree": int(rc1), "baseline_tests_on_changed_tree": tests,
                                 "how": "scratch copy of /repo under /var/tmp, patch applied with git apply, demo.py run with PYTHONPATH=<copy>, the 53 stable tests of /root/.vp/BASELINE.json run there"},
        "owning_check": {"id": pid, "tier": "quick", "exit": int(rcc), "caught": int(rcc) == 1, "mechanisms": mechs.split()}}
json.dump(meta, open(os.path.join(out, "meta.json"), "w"), indent=1)
if os.path.exists(os.path.join(out, "meta.agent.json")):
    os.remove(os.path.join(out, "meta.agent.json"))
print("SEEDED %s check=%s demo(unchanged,changed)=(%s,%s) tests=[%s] check_exit=%s" % (os.path.basename(out), pid, rc0, rc1, tests, rcc))
PY
