#!/bin/bash
# Offline audit (not a registered command): line coverage of the bempp_cl Python layer (not of the JIT kernels)
# reached by the quick tiers of all checks; shows which API paths no monitor drives.
#   tools/coverage_audit.sh [ID ...]     -> report in /var/tmp/verif-cov/report.txt
HERE="$(cd "$(dirname "${BASH_SOURCE[0]}")/.." && pwd)"
OUT=/var/tmp/verif-cov; mkdir -p "$OUT"; cd "$HERE"
IDS="${@:-C01 C02 C03 C04 C05 C06 C07 C08 C09 C10 C11 C12 C13 C14 C15 C16 C17 C18 C19 C20}"
export PYTHONHASHSEED=0 OPENBLAS_NUM_THREADS=1 MKL_NUM_THREADS=1 OMP_WAIT_POLICY=passive GOMP_SPINCOUNT=0 PYTHONPATH="$HERE" NUMBA_NUM_THREADS=4
export VERIF_REPO=/repo VERIF_SELFTEST=1
cat > "$OUT/.coveragerc" <<EOC
[run]
source = /repo/bempp_cl
data_file = $OUT/.coverage
parallel = True
EOC
for c in $IDS; do
  timeout 3600 /venv/bin/python -m coverage run --rcfile="$OUT/.coveragerc" -m checks.$c --tier quick > "$OUT/$c.log" 2>&1
  echo "$c exit=$?" >> "$OUT/progress.txt"
done
cd "$OUT" && /venv/bin/python -m coverage combine --rcfile="$OUT/.coveragerc" >/dev/null 2>&1
/venv/bin/python -m coverage report --rcfile="$OUT/.coveragerc" -m > "$OUT/report.txt" 2>&1
tail -n 3 "$OUT/report.txt"
