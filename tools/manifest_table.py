"""Per-check manifest texts."""
CHECKS = {
    "C12": {
        "technique": "exhaustive exactness sweep with rational reference integrals + convergence monitor",
        "text": "Every supported triangle (1-20) and Gauss (1-30) order is tested on every monomial up to its stated degree against exact rational integrals; every Duffy rule order in range, every adjacency type and every one of the 36 edge / 9 vertex remap pairs is tested for polynomial exactness up to total degree 2n-4 and for geometric convergence of the 1/|x-y| integral to an independent reference (analytic inner integral, graded Gauss outer). The space is finite, so the sweep is exhaustive over orders/monomials/remaps up to the tier's maximal Duffy order.",
        "note": "Trusted: Python Fractions / NumPy; the reference 1/|x-y| integrator (self-consistency P<->Q exchanged is a coverage obligation). Duffy orders above 6 (quick) / 10 (thorough) are not swept.",
    },
}
CHECKS["C11"] = {
    "technique": "invariant walker hooked on Grid.__init__ vs brute-force topology/geometry model; exhaustive sub-complex sweep",
    "text": "Every Grid the workload constructs (including those built internally by refine, barycentric_refinement, union and grid_from_segments, seen through a post-condition on Grid.__init__) is walked against a brute-force model of edges, incidence tables, adjacency tables with dereferenced local indices, boundary flags and all geometric arrays; derived grids are checked for area, orientation, domain-index and nesting preservation by geometric parent search. Exhaustive over all 525 sub-complexes of three base meshes; sampled over mesh families, relabelings, dtypes, memory orders and random non-manifold soups.",
    "note": "Trusted: the brute-force model in vlib. Held on the grids observed; soups are limited to <= 13 elements, families to <= 400 elements for derived grids.",
}
NOT_APPLICABLE = {}
