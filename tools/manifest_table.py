"""Per-check manifest texts."""
CHECKS = {
    "C12": {
        "technique": "exhaustive exactness sweep with rational reference integrals + convergence monitor",
        "text": "Every supported triangle (1-20) and Gauss (1-30) order is tested on every monomial up to its stated degree against exact rational integrals; every Duffy rule order in range, every adjacency type and every one of the 36 edge / 9 vertex remap pairs is tested for polynomial exactness up to total degree 2n-4 and for geometric convergence of the 1/|x-y| integral to an independent reference (analytic inner integral, graded Gauss outer). The space is finite, so the sweep is exhaustive over orders/monomials/remaps up to the tier's maximal Duffy order.",
        "note": "Trusted: Python Fractions / NumPy; the reference 1/|x-y| integrator (self-consistency P<->Q exchanged is a coverage obligation). Duffy orders above 6 (quick) / 10 (thorough) are not swept.",
    },
}
CHECKS["C11"] = {
    "technique": "invariant walker hooked on Grid.__init__ vs brute-force topology/geometry model; exhaustive sub-complex sweep",
    "text": "Every Grid the workload constructs (including those built internally by refine, barycentric_refinement, union and grid_from_segments, seen through a post-condition on Grid.__init__) is walked against a brute-force model of edges, incidence tables, adjacency tables with dereferenced local indices, boundary flags and all geometric arrays; derived grids are checked for area, orientation, domain-index and nesting preservation by geometric parent search. Exhaustive over all 525 sub-complexes of three base meshes; sampled over mesh families, relabelings, dtypes, memory orders and random non-manifold soups.",
    "note": "Trusted: the brute-force model in vlib. Held on the grids observed; soups are limited to <= 13 elements, families to <= 400 elements for derived grids.",
}
CHECKS["C09"] = {
    "technique": "invariant walker hooked on FunctionSpace.__init__ vs brute-force entity model; pointwise continuity / partition-of-unity probes",
    "text": "Every space of a generated workload (9 kinds x segment/support subsets x the four include_boundary_dofs/truncate_at_segment_edge combinations x swapped normals x closed/open/multi-domain/genus-1 meshes) is walked: local2global/global2local mutually inverse, maps to the localised/full-grid space equal their definition, each DOF sits on one brute-force-selected vertex/edge/element, DOF count equals the brute-force entity count, value/normal/tangential continuity across every interior edge at 3 points for random coefficients, partition of unity where the property claims it. The generic part also runs as a post-condition of FunctionSpace.__init__ (localised, barycentric and internal coarse spaces).",
    "note": "Trusted: brute-force entity model (vlib/spaces.py). Selections with zero DOFs and edge spaces on supports with an edge shared by 3 supported elements are outside the model and skipped (counted).",
}
CHECKS["C16"] = {
    "technique": "lockset-style write-set monitor at kernel launches + colouring walker + schedule sweep with result hashing (omp and workqueue layers)",
    "text": "The data-race guarantee is decided deterministically: a colouring walker on every space of the C09-style workload (no two elements of one colour share a local2global value, artificial zero-multiplier DOFs included) and a launch recorder that checks, for every regular-kernel launch of the operator workload, that the test elements processed in one prange write pairwise disjoint rows and that all index arguments are inside the array extents. The observable is decided by re-assembling each operator/potential under thread counts {1,2,7,16} x chunk sizes {0,1,3} x repetitions, with GIL-releasing CPU noise and concurrent Python threads, on two threading layers: one SHA-1 per operator.",
    "note": "ThreadSanitizer/helgrind cannot instrument Numba JIT code; the write-set monitor replaces them. Determinism is 'held on the schedules observed' (listed in the evidence), not a proof over all OpenMP schedules.",
}
CHECKS["C19"] = {
    "technique": "file round-trip monitor: export through the public API, read back with meshio / import_grid, compare with independently computed expected data",
    "text": "Generated grids (closed/open/multi-domain, six domain-index classes incl. all-zero, single-valued, non-contiguous, up to 2^31-1) and grid functions (DP0/DP1/P1/RWG/SNC x real/complex x node/element x every transformation incl. callables) are exported to .msh/.vtu/.ply in binary and ASCII; .msh grids come back through import_grid with identical vertices, elements and domain indices, the other formats preserve vertices and connectivity, and function files read with meshio equal evaluate_on_vertices / evaluate_on_element_centers after the documented transformation computed by the check. What a format can store, and how precisely, is calibrated at run time by a meshio-only write/read, so that format limits are never blamed on bempp-cl.",
    "note": "Trusted: meshio as reader; the calibration table (in the evidence). .vtk is not claimed (not named by the property). Combinations meshio itself cannot store are skipped and counted.",
}
CHECKS["C01"] = {
    "technique": "analytic-identity residual monitor with convergence ladder + launch recorder + Numba sanitizer-build replay",
    "text": "Both Calderon identities are evaluated for random affine u on closed meshes of several topological types (convex, non-convex, genus 1, multi-component, relabelled, scaled, translated) along a ladder of (regular, singular) quadrature orders; violated if the residual at the top of the ladder is >= 1e-6 or is not >= 30x smaller than at (6,6). The ladder is extended up to (20,18) while the residual is >= 1e-6 because the Duffy rules converge geometrically with a shape-dependent rate. Every kernel launch is bounds-validated by the launch recorder; a sample is re-run under the bounds-checked serial Numba build.",
    "note": "Trusted: exact representability of affine traces in P1/DP0; the convergence criterion. Held on the meshes observed (counts in the evidence).",
}
CHECKS["C02"] = {
    "technique": "analytic-identity monitor at winding-number-classified points with convergence ladder + differential sanitizer-build replay",
    "text": "SL[a.n] - DL[u] is evaluated at interior and exterior points (classified by an independent solid-angle winding number, at least one circum-diameter from the surface) for random affine u along regular orders 4,8,12,16; violated if the error at order 16 is >= 1e-6 max|u| or not >= 30x below order 4. The same density split into segment-wise P1/DP0 pieces (with and without swapped normals compensated by sign) must reproduce the whole-grid potential to 1e-11. A sample is recomputed under the bounds-checked serial Numba build and compared to 1e-10.",
    "note": "Trusted: winding-number classifier (vlib.refmodel); points with ambiguous classification are discarded.",
}
NOT_APPLICABLE = {}
