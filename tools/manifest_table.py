"""Per-check manifest texts."""
CHECKS = {
    "C12": {
        "technique": "exhaustive exactness sweep with rational reference integrals + convergence monitor",
        "text": "Every supported triangle (1-20) and Gauss (1-30) order is tested on every monomial up to its stated degree against exact rational integrals; every Duffy rule order in range, every adjacency type and every one of the 36 edge / 9 vertex remap pairs is tested for polynomial exactness up to total degree 2n-4 and for geometric convergence of the 1/|x-y| integral to an independent reference (analytic inner integral, graded Gauss outer). The space is finite, so the sweep is exhaustive over orders/monomials/remaps up to the tier's maximal Duffy order.",
        "note": "Trusted: Python Fractions / NumPy; the reference 1/|x-y| integrator (self-consistency P<->Q exchanged is a coverage obligation). Duffy orders above 6 (quick) / 10 (thorough) are not swept.",
    },
}
CHECKS["C11"] = {
    "technique": "invariant walker hooked on Grid.__init__ vs brute-force topology/geometry model; exhaustive sub-complex sweep",
    "text": "Every Grid the workload constructs (including those built internally by refine, barycentric_refinement, union and grid_from_segments, seen through a post-condition on Grid.__init__) is walked against a brute-force model of edges, incidence tables, adjacency tables with dereferenced local indices, boundary flags and all geometric arrays; derived grids are checked for area, orientation, domain-index and nesting preservation by geometric parent search. Exhaustive over all 525 sub-complexes of three base meshes; sampled over mesh families, relabelings, dtypes, memory orders and random non-manifold soups.",
    "note": "Trusted: the brute-force model in vlib. Held on the grids observed; soups are limited to <= 13 elements, families to <= 400 elements for derived grids.",
}
CHECKS["C09"] = {
    "technique": "invariant walker hooked on FunctionSpace.__init__ vs brute-force entity model; pointwise continuity / partition-of-unity probes",
    "text": "Every space of a generated workload (9 kinds x segment/support subsets x the four include_boundary_dofs/truncate_at_segment_edge combinations x swapped normals x closed/open/multi-domain/genus-1 meshes) is walked: local2global/global2local mutually inverse, maps to the localised/full-grid space equal their definition, each DOF sits on one brute-force-selected vertex/edge/element, DOF count equals the brute-force entity count, value/normal/tangential continuity across every interior edge at 3 points for random coefficients, partition of unity where the property claims it. The generic part also runs as a post-condition of FunctionSpace.__init__ (localised, barycentric and internal coarse spaces).",
    "note": "Trusted: brute-force entity model (vlib/spaces.py). Selections with zero DOFs and edge spaces on supports with an edge shared by 3 supported elements are outside the model and skipped (counted).",
}
CHECKS["C16"] = {
    "technique": "lockset-style write-set monitor at kernel launches + colouring walker + schedule sweep with result hashing (omp and workqueue layers)",
    "text": "The data-race guarantee is decided deterministically: a colouring walker on every space of the C09-style workload (no two elements of one colour share a local2global value, artificial zero-multiplier DOFs included) and a launch recorder that checks, for every regular-kernel launch of the operator workload, that the test elements processed in one prange write pairwise disjoint rows and that all index arguments are inside the array extents. The observable is decided by re-assembling each operator/potential under thread counts {1,2,7,16} x chunk sizes {0,1,3} x repetitions, with GIL-releasing CPU noise and concurrent Python threads, on two threading layers: one SHA-1 per operator.",
    "note": "ThreadSanitizer/helgrind cannot instrument Numba JIT code; the write-set monitor replaces them. Determinism is 'held on the schedules observed' (listed in the evidence), not a proof over all OpenMP schedules.",
}
CHECKS["C19"] = {
    "technique": "file round-trip monitor: export through the public API, read back with meshio / import_grid, compare with independently computed expected data",
    "text": "Generated grids (closed/open/multi-domain, six domain-index classes incl. all-zero, single-valued, non-contiguous, up to 2^31-1) and grid functions (DP0/DP1/P1/RWG/SNC x real/complex x node/element x every transformation incl. callables) are exported to .msh/.vtu/.ply in binary and ASCII; .msh grids come back through import_grid with identical vertices, elements and domain indices, the other formats preserve vertices and connectivity, and function files read with meshio equal evaluate_on_vertices / evaluate_on_element_centers after the documented transformation computed by the check. What a format can store, and how precisely, is calibrated at run time by a meshio-only write/read, so that format limits are never blamed on bempp-cl.",
    "note": "Trusted: meshio as reader; the calibration table (in the evidence). .vtk is not claimed (not named by the property). Combinations meshio itself cannot store are skipped and counted.",
}
CHECKS["C01"] = {
    "technique": "analytic-identity residual monitor with convergence ladder + launch recorder + Numba sanitizer-build replay",
    "text": "Both Calderon identities are evaluated for random affine u on closed meshes of several topological types (convex, non-convex, genus 1, multi-component, relabelled, scaled, translated) along a ladder of (regular, singular) quadrature orders; violated if the residual at the top of the ladder is >= 1e-6 or is not >= 30x smaller than at (6,6). The ladder is extended up to (20,18) while the residual is >= 1e-6 because the Duffy rules converge geometrically with a shape-dependent rate. Every kernel launch is bounds-validated by the launch recorder; a sample is re-run under the bounds-checked serial Numba build.",
    "note": "Trusted: exact representability of affine traces in P1/DP0; the convergence criterion. Held on the meshes observed (counts in the evidence).",
}
CHECKS["C02"] = {
    "technique": "analytic-identity monitor at winding-number-classified points with convergence ladder + differential sanitizer-build replay",
    "text": "SL[a.n] - DL[u] is evaluated at interior and exterior points (classified by an independent solid-angle winding number, at least one circum-diameter from the surface) for random affine u along regular orders 4,8,12,16; violated if the error at order 16 is >= 1e-6 max|u| or not >= 30x below order 4. The same density split into segment-wise P1/DP0 pieces (with and without swapped normals compensated by sign) must reproduce the whole-grid potential to 1e-11. A sample is recomputed under the bounds-checked serial Numba build and compared to 1e-10.",
    "note": "Trusted: winding-number classifier (vlib.refmodel); points with ambiguous classification are discarded.",
}
CHECKS["C04"] = {
    "technique": "differential monitor between two code paths for the same integral (sub-space vs T'A_full T) + nesting convergence monitor + sanitizer-build replay",
    "text": "For generated spaces S (DP0/DP1/P1/RWG/SNC x segment / support_elements subsets x include_boundary_dofs/truncate_at_segment_edge combinations x swapped normals, test and trial chosen independently, possibly with different normal flags) and operators of all families, the assembled matrix is compared to 1e-11 with T_test' A_full T_trial, A_full being the same operator on the full-grid element-wise space with the same local basis (observed 6e-16). Nested spaces: P' A_fine P vs A_coarse for grid.refine() and the barycentric refinement with a prolongation built geometrically by the check, decided by convergence along an order ladder. All cases are replayed under the bounds-checked serial Numba build and compared to 1e-10.",
    "note": "T is the library's own map_to_full_grid (whose content C09 checks against its definition). Selections without DOFs are skipped.",
}
CHECKS["C06"] = {
    "technique": "differential monitor: operator vs decomposition assembled from single-layer matrices and reference-model sparse maps; symmetry convergence monitor",
    "text": "Hypersingular (Laplace, Helmholtz real/complex k, modified Helmholtz) and Maxwell electric-field matrices on generated P1 / RWG / SNC spaces (segments, boundary dofs, swapped normals, different flags for test and trial) are compared to 1e-11 with sum_c C_c'V0C_c - k^2 sum_c N_c'V1N_c resp. -ik sum_c R_c'V1R_c - 1/(ik) D'V0D, where V0/V1 are assembled by the library at the same orders and C, N, R, D are built by the check from vertex coordinates (observed 5e-15). W_0*1 = 0 on closed grids to 1e-12; complex symmetry of E and H decided by convergence in the singular order.",
    "note": "V0/V1 come from the library (their correctness is decided by C01/C03/C05); the maps C,N,R,D are independent of bempp code.",
}
CHECKS["C07"] = {
    "technique": "differential monitor: boundary matrix between disjoint grids vs library potential operator tested with reference shape functions; launch-log assertions",
    "text": "For pairs of disjoint grids (closed/closed, closed/screen, screen/screen, separations 0.2-10 diameters, different sizes) the SL and DL matrices of Laplace/Helmholtz/modified Helmholtz and the Maxwell magnetic-field matrix are compared to 1e-11 with Q*Pot, Pot being the library's potential operator of each trial basis function at grid_B.map_to_point_cloud(r) and Q the test integration built from reference shape functions (observed 5e-16); the electric field is decided by convergence in r. The launch log must show grids_identical=False and no singular launch.",
    "note": "Uses the library's regular rule nodes (C12 decides the rule). Adjoint double layer and hypersingular have no potential counterpart and are not covered here.",
}
CHECKS["C15"] = {
    "technique": "solver-boundary monitor: manufactured solutions, dense residual recomputation, scipy callback interposition",
    "text": "Well-conditioned single and blocked systems (real/complex, equal and unequal range/dual sizes, permuted block columns, generalized blocked) are solved with lu (direct and precomputed factors), gmres and cg in weak and strong form for tolerances 1e-4..1e-12 and restart/maxiter grids; the check recomputes the true residual from its own dense model, compares iteration counts and residual histories with the callbacks it observes by wrapping scipy's gmres/cg, demands info>0 when maxiter is hit, and checks that results live in the domain spaces.",
    "note": "Convergence expectations come from running scipy on the check's dense model with the same settings; borderline cases only get consistency checks.",
}
CHECKS["C20"] = {
    "technique": "clang ASan+UBSan on the OpenCL sources compiled as OpenCL C for the host + differential testing against the Numba kernels",
    "text": "kernels.h and the four shapeset headers are parsed, a wrapper per function is generated and compiled as OpenCL C for x86-64 with -fsanitize=address,undefined for both precisions, linked with C++ shims for the OpenCL builtins; every one of the 56 functions (12 kernel families x novec/vec4/vec8/vec16, diff_vec*, shapesets) is run on random point pairs at distances 1e-3..1e3 and wavenumbers real/complex/imaginary/zero and compared, lane by lane, with the Numba kernel the repository's own tables pair it with (and the FMM helper for the gradient), tolerance 640 eps (1+|k|r) (observed <= 6 units). Any sanitizer report fails the run.",
    "note": "Builtins are libm at the type's precision, not a GPU's native_*; far-field kernels use Re k in both backends (C08's matter).",
}

CHECKS["C03"] = {
    "technique": "metamorphic monitor over group actions with measured signed permutations; class-complete adjacency family; singular-order convergence",
    "text": "Each operator family / space pair is assembled on a grid and on its image under rigid motions (incl. translation by 1000 diameters), scalings (k -> k/s), vertex+element renumbering, cyclic local rotations and physically reversed orientation in place of a swapped-normals flag. The signed permutations relating the two spaces are measured by evaluating both bases at the same physical points (and must be signed permutations); A(m) = s^-h P_test' A(m') P_trial is demanded to rounding for motions/scalings and for the regular part under relabelling, and up to singular-quadrature error (convergence in the singular order) for the full matrix. A family of two-element grids realises all 18 edge and 9 vertex adjacency classes (coverage obligation).",
    "note": "Uses space.evaluate on both grids to measure the permutations (C09/C13 check evaluate itself). Rounding tolerance 1e-10 (1e-6 for the far translation).",
}
CHECKS["C05"] = {
    "technique": "entrywise analytic bound monitor + differential monitors between operator families + symmetry convergence",
    "text": "For |k|D <= 1 (real, imaginary, complex k) the Helmholtz single/double/adjoint double layer matrices are compared entrywise with the Laplace ones plus ik/(4pi) m m' against the bounds the property states, with m-hat computed from the library's nodes with absolute weights (so rules with negative weights cannot cause a false alarm; analytic constants e-2 and 1 leave slack). Helmholtz(i w) must equal modified Helmholtz(w) to 1e-12 for boundary and potential operators, also for a vanishing real part; A(-conj k) = conj A(k) to 1e-12; V, W complex-symmetric and K' = K^T decided by convergence in the singular order.",
    "note": "D is the exact diameter of the vertex set. Segment/support spaces included.",
}
CHECKS["C08"] = {
    "technique": "reference-model monitor (closed-form kernel sums) + finite-difference PDE residual with Richardson extrapolation + limit/phase monitors",
    "text": "Every potential and far-field operator (Laplace, Helmholtz, modified Helmholtz SL/DL; Maxwell E/H; all accepted space kinds incl. segments; real and complex densities and wavenumbers) is compared to 1e-11 with the kernel sum over the library's nodes computed from reference kernels and reference shape functions (observed 3e-15). PDE residuals are formed with 7-point / central stencils at h and h/2 and Richardson-extrapolated to h=0 (a residual that does not vanish with h survives); curl H = -ikE and div E = 0 are decided by convergence in the regular order. Far fields are compared with the Richardson limit of r exp(-ikr) u(r x) and with the translation law.",
    "note": "Known finding: far-field kernels ignore Im k (recorded by mechanism, real k fully checked).",
}
CHECKS["C17"] = {
    "technique": "backend substitution (exact-summation exafmm stand-in) + differential monitor FMM vs dense + interpreted replay of bounds-unchecked point-map kernels + sanitizer-build replay",
    "text": "The exafmm package is replaced by vlib/fake_exafmm (exact O(NM) summation of the same point sources, written independently), so all of bempp-cl's FMM glue runs; every boundary operator (4 scalar ops x 3 families, Maxwell E/H) and potential created with assembler='fmm' is applied to random real/complex vectors and compared to 1e-10 with the dense assembler on whole-grid, segment and dual-grid spaces, same and different grids, both near-field representations and several global orders (observed 1e-15). For partial supports the JIT point-map builders are replayed interpreted so that an index slip raises instead of corrupting memory.",
    "note": "The FMM evaluators read the global quadrature order; the dense reference uses the same global order (the coupling itself is C18's matter). The shipped reference vectors (tolerance 2e-3 with a real FMM) are not replayed: an exact backend makes them redundant.",
}

CHECKS["C10"] = {
    "technique": "pointwise reference monitor on barycentric sub-triangles + nodal-value walker + mass-matrix differential against quadrature of the evaluated bases",
    "text": "On non-uniform closed and open meshes (vertex valences 3-6 quick, more in thorough) and generated space options: (1) a function and the same coefficient vector in space.barycentric_representation() are evaluated at degree-exact quadrature points of all six sub-triangles, located geometrically in both grids, and must agree to 1e-12 for DP0, P1, RWG, SNC; (2) DUAL0 functions must be the indicators of the barycentric elements at their vertex, DUAL1 functions must take 1 / 1/2 / 1/n / 0 at the barycentric nodes (n by brute force) and be continuous; (3) every mixed mass matrix identity(primal|dual, ., dual|primal) incl. BC/RBC must equal the integral of the product of the evaluated bases to 1e-11.",
    "note": "Bases are evaluated through space.evaluate and dof_transformation on each space's own grid; point location is geometric (no numbering table of the library is used).",
}
CHECKS["C18"] = {
    "technique": "history monitor: seeded random API-call histories, each observable compared with the same configuration recomputed in isolation (and a sample in a fresh interpreter); state-based classifier of deviations",
    "text": "Random histories over {set global quadrature/FMM parameters, create operator (dense, sparse, singular part, FMM; explicit parameters or None), weak_form, strong_form, potential evaluation, mass_matrix, clear_fmm_cache, barycentric refinement} on two grids, three order pairs and eight operator configurations collide caches on purpose. Every observable is compared to 1e-12 with the value of the same configuration built from new objects with the effective parameter values set globally and empty caches (the history's own caches are saved/restored around the reference computation); a sample is recomputed in a fresh interpreter. weak_form() identity and single-vs-double precision are checked. Deviations are classified from the history state (lazy binding of globals, FMM evaluators reading the global order, FMM cache key) so that recorded findings never hide an unclassified history dependence.",
    "note": "FMM through the exact-summation stand-in. 'Configuration' = spaces, wavenumber, assembler, precision and the effective parameter values at construction.",
}

CHECKS["C14"] = {
    "technique": "program generator + dense-matrix interpreter with a space-compatibility type checker; systematic (operation x ill-typed reason) sweep then seeded exploration",
    "text": "Expression trees of depth <= 4 (quick) / 6 (thorough) over a pool of 24 boundary operators, 12 blocked / generalized blocked operators, 18 discrete operators, 10 potential operators, 24 grid functions (primal and dual representation) and 11 scalar types are interpreted against dense NumPy matrices: sums, differences, scalings, negations, products (weak M^-1 weak), transposes/adjoints, to_dense vs matvec/matmat, real-on-complex by parts, A*f projections (blocked: sliced by dual DOF counts), potential algebra; every well-typed program must succeed and match to 1e-10, every ill-typed one (incompatible spaces of equal size on the same or another grid, different sizes, other points) must not yield numbers. 2020 programs quick, 16420 thorough.",
    "note": "Compatibility semantics follow space.hash / is_compatible as documented; the pool uses the icosahedron because the P1-DP0 mass matrix is singular on octahedron/cube refinements (cond guard 1e3).",
}

CHECKS["C13"] = {
    "technique": "reference-model monitor: mass / surface-gradient matrices, projections, integrals and evaluations against degree-exact reference quadrature with reference shape functions",
    "text": "identity(domain, ., dual) for all pairs of DP0/DP1/P1/RWG/SNC spaces (segments, support_elements, boundary dofs, test and trial chosen independently) is compared to 1e-12 with a reference mass matrix built from vertex coordinates, reference shape functions and a degree-exact collapsed Gauss rule, for every library order that integrates the product exactly (orders 1..20 swept); SPD / area-sum checks; Laplace-Beltrami vs reference surface-gradient matrix (symmetric, PSD, kills constants); projection of in-space callables (jit, non-jit, vectorised, parameterised, real/complex) returns exact coefficients; integrate, l2_norm, projections, evaluate, evaluate_on_vertices, evaluate_on_element_centers and MultiplicationOperator agree with direct reference quadrature of the represented function on non-uniform meshes.",
    "note": "Reference shape functions and rule are the check's own (vlib.refmodel); DOF maps come from the spaces (C09 decides them).",
}

NOT_APPLICABLE = {}

# ---- additions made while strengthening the checks against independently seeded changes (DESIGN.md 11.5)
ADDENDA = {
    "C01": "The pool contains a physically tiny copy (1e-5), the raw tetrahedron (no vertex-adjacent pair) and, in the thorough tier, huge / far-translated copies; ladders stop being extended once the verdict is decided.",
    "C02": "Orders are also driven through GLOBAL_PARAMETERS and one reused parameter object; a closed non-manifold surface (two cubes touching along an edge) is in the pool; values must not depend on how many points (1-4) are evaluated together; segment-wise pieces with and without swapped normals sum to the whole.",
    "C03": "Also: the swapped-normals flag on one space only (against the reversed grid with the complementary flag, and for the double layers against the plain reversed grid), a multitrace grid with junction edges under element renumbering, P1 with default options on open grids, wavenumbers with Im k < 0.",
    "C04": "Also: every hypersingular twin in the quick tier, different normal flags on test and trial, the library's barycentric prolongation through the exact mass matrix for all kinds and segment selections, nested `segments=` spaces on refined grids.",
    "C05": "Also: wavenumbers in all four quadrants, potentials with explicit orders on the imaginary-k forwarding path, exchange relations between spaces of different orientation and between two different grids.",
    "C06": "Also: different normal flags on test and trial, Im k < 0, purely imaginary k (forwarding path), the decomposition for a coupling block between two different grids.",
    "C07": "Also: the Maxwell magnetic-field identity with complex k (Im k of both signs) in the quick tier, differing normal flags.",
    "C08": "Also: Im k < 0, purely imaginary k with explicit orders, complex omega for the modified Helmholtz potentials (rejected or exact, never the value of another omega).",
    "C09": "Also: a grid with one domain stored with reversed orientation (multitrace use of swapped_normals), DUAL1 dof-to-element attachment at the barycentres for every selection.",
    "C10": "Also: DUAL0 under all four boundary/truncation combinations, DUAL1 on open grids, RBC = nu x BC and SNC = nu x RWG against the geometry on a grid with a reversed domain, untruncated BC/RBC segment functions against the whole-grid functions of the same coarse edges, invariance of the dual/BC function sets under renumbering of the grid.",
    "C11": "Also: byte-exact snapshots of the operands around every derived-grid operation, mesh families in micrometre and kilometre units.",
    "C13": "Also: identity with swapped normals on one side only (SNC pair in the quick tier), purity of projections queries, functions given by projections onto another dual space.",
    "C14": "Also: purity of projections queries, a single-precision dense operator leaf applied to complex data.",
    "C15": "Also: right-hand side unchanged / second solve / aliasing for the LU-factor path, lists of mixed dtype, data scaled by 1e-7..1e6, a ProductBlockedOperator, the strong-form cg residual history, a blocked system with BC range and SNC dual (non-symmetric mass matrix).",
    "C16": "Also: vertices of valence 70/130, a same-support pair with different dof maps, potentials at 1 and 3 points, an operator between two different grids, space objects first assembled under one thread and reused under several; odd thread counts on machines with fewer than 7 threads.",
    "C17": "Also: swapped normals, Im k < 0, fmm.dense_evaluation = True.",
    "C18": "Also: post-conditions of the events themselves (clear_fmm_cache empties the caches, private parameter objects alias neither the globals nor each other), constructor sweep over every boundary constructor x wavenumber class x assembler (incl. only_diagonal_part) and numerically over potentials / far fields, scripted histories (derived operators leave operands alone in double and single precision; different explicit orders on shared spaces; strong form after a low-order operator), single precision for four operator families and two potentials.",
    "C19": "Also: single-precision (float32 / complex64) coefficient vectors, vertex values against an area-weighted model computed from pointwise evaluate().",
    "C20": "Also: the FMM helper kernel called with two targets per call (second target compared).",
}
for _k, _v in ADDENDA.items():
    CHECKS[_k]["text"] = CHECKS[_k]["text"].rstrip() + " " + _v
