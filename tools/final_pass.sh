#!/bin/bash
# Closing procedure (not a registered command): run EVERY registered quick command on the unchanged /repo, in two streams,
# record exit code and wall time; evidence/ is rewritten by the runs themselves.
#   tools/final_pass.sh            -> /var/tmp/verif-final/summary.txt
HERE="$(cd "$(dirname "${BASH_SOURCE[0]}")/.." && pwd)"
OUT=/var/tmp/verif-final; mkdir -p "$OUT"; rm -f "$OUT"/summary.txt
cd "$HERE"
stream() {
  for c in "$@"; do
    s=$(date +%s)
    timeout 4000 ./run_check.sh $c quick > "$OUT/$c.log" 2>&1
    rc=$?
    e=$(date +%s)
    echo "$c exit=$rc wall=$((e-s))s $(grep -a '^RESULT\|^INCONCL\|^VIOLATION' "$OUT/$c.log" | head -2 | tr '\n' ' ')" >> "$OUT/summary.txt"
  done
}
stream C03 C05 C08 C13 C17 C18 C01 C12 C11 C19 &
stream C04 C06 C07 C02 C16 C14 C15 C09 C10 C20 &
wait
sort "$OUT/summary.txt"
