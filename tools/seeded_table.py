#!/venv/bin/python
"""Print a markdown table of /verif/seeded/*/meta.json (for DESIGN.md §11.5)."""
import glob, json, os
rows = []
for f in sorted(glob.glob(os.path.join(os.path.dirname(os.path.dirname(os.path.abspath(__file__))), "seeded", "*", "meta.json"))):
    m = json.load(open(f))
    name = os.path.basename(os.path.dirname(f))
    c = m.get("confirmed_by_builder", {})
    oc = m.get("owning_check", {})
    rows.append("| %s | %s | %s | demo %s/%s; tests: %s | %s | %s |" % (
        name, (m.get("files") or ["?"])[0].split("/")[-1], (m.get("summary") or "")[:110].replace("|", "/").replace("\n", " "),
        c.get("demo_exit_unchanged_tree"), c.get("demo_exit_changed_tree"), (c.get("baseline_tests_on_changed_tree") or "pending").strip("= ")[:22],
        "caught" if oc.get("caught") else "MISSED", ", ".join(oc.get("mechanisms", [])[:2])[:90]))
print("| seeded | file | change (abridged) | confirmation | owning check (quick) | first mechanisms |\n|---|---|---|---|---|---|")
print("\n".join(rows))
