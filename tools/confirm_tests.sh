#!/bin/bash
# Run the 53 baseline tests on a scratch copy of /repo with seeded/<name>/patch.diff applied and record the outcome
# in seeded/<name>/meta.json (confirmed_by_builder.baseline_tests_on_changed_tree).
#   tools/confirm_tests.sh <name>
HERE="$(cd "$(dirname "${BASH_SOURCE[0]}")/.." && pwd)"
export NUMBA_NUM_THREADS=4 OPENBLAS_NUM_THREADS=1 OMP_WAIT_POLICY=passive
NAME="$1"; OUT="$HERE/seeded/$NAME"
S="$(mktemp -d /var/tmp/verif-seedt.XXXXXX)"
trap 'rm -rf "$S"' EXIT
rsync -a --exclude .git --exclude __pycache__ --exclude '*.pyc' /repo/ "$S/repo/"
cd "$S/repo" && git init -q . 2>/dev/null
git apply --whitespace=nowarn "$OUT/patch.diff" || { echo "PATCH-DOES-NOT-APPLY"; exit 3; }
/venv/bin/python - > "$S/ids.txt" <<'PY'
import json
b=json.load(open('/root/.vp/BASELINE.json'))
print("\n".join(t.split('::',1)[0].replace('.','/')+'.py::'+t.split('::',1)[1] for t in b['stable_pass']))
PY
mapfile -t IDS < "$S/ids.txt"
( cd "$S/repo" && PYTHONPATH="$S/repo" timeout 5400 /venv/bin/python -m pytest -q -p no:cacheprovider "${IDS[@]}" > "$S/tests.log" 2>&1 )
SUMMARY="$(grep -E "passed|failed|error" "$S/tests.log" | tail -1)"
echo "$NAME: $SUMMARY"
/venv/bin/python - "$OUT/meta.json" "$SUMMARY" <<'PY'
import json, sys
p, s = sys.argv[1:3]
m = json.load(open(p))
m.setdefault("confirmed_by_builder", {})["baseline_tests_on_changed_tree"] = s.strip()
json.dump(m, open(p, "w"), indent=1)
PY
