#!/bin/bash
# Entry point named in MANIFEST.json:  run_check.sh <ID> <quick|thorough> [extra args]
# cwd may be anything; everything is resolved relative to this file.
HERE="$(cd "$(dirname "${BASH_SOURCE[0]}")" && pwd)"
ID="$1"; TIER="${2:-${VERIF_TIER:-quick}}"; shift; shift
export PYTHONHASHSEED=0
export PYTHONDONTWRITEBYTECODE=1
# BLAS must not spawn its own thread teams beside Numba's (oversubscription, and irrelevant to the checks)
export OPENBLAS_NUM_THREADS=1
export MKL_NUM_THREADS=1
# idle OpenMP workers sleep instead of spinning (many short parallel regions; the machine may be shared)
export OMP_WAIT_POLICY=passive
export GOMP_SPINCOUNT=0
export VERIF_TIER="$TIER"
export PYTHONPATH="$HERE${PYTHONPATH:+:$PYTHONPATH}"
cd "$HERE"
exec /venv/bin/python -X faulthandler -m "checks.$ID" --tier "$TIER" "$@"
