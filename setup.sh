#!/bin/bash
# Offline set-up: optional contracts library beside the repo's interpreter (used by constructor post-conditions).
HERE="$(cd "$(dirname "${BASH_SOURCE[0]}")" && pwd)"
cd "$HERE"
mkdir -p .deps .work evidence
if [ ! -d .deps/icontract ]; then
  PIP_NO_INDEX=1 /venv/bin/pip install -q --no-index --find-links /opt/veriftools/wheels --target .deps icontract >/dev/null 2>&1 || echo "icontract not installed (checks fall back to plain wrappers)"
fi
exit 0
